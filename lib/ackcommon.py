"""Shared harness for C05 / C06: run the real validator (pyx12.x12n_document.x12n_document) on a document and
record, without any oracle logic,

  hist      what was received: one Envelope-style record per input segment, from an independent pass of the
            real X12Reader over the same text (kinds, control numbers, declared counts, addressing fields)
  calls     every call x12n_document / the walker / the map made on the error handler, in order, stamped with
            the index of the input segment being processed (a recording subclass is substituted for
            pyx12.error_handler.err_handler, which x12n_document looks up at call time)
  tree      the error tree the handler ended up with (walked with our own code: nested projection)
  verdict   the boolean returned, errcount = errh.get_error_count(), valid = the running per-segment flag
  ack       the 997/999 text parsed into segments with the acknowledgement's own delimiters
  reread    envelope errors of the real X12Reader on the acknowledgement
  reval     x12n_document on the acknowledgement itself: map selected, verdict, exception

All judgement is left to TLC (spec/T_Ack.tla).
"""
import io
import logging
import os
import re
import sys

sys.path.insert(0, os.path.dirname(os.path.abspath(__file__)))
import vlib

sys.path.insert(0, vlib.REPO)
import pyx12.error_handler
import pyx12.errors
import pyx12.map_if
import pyx12.params
import pyx12.x12file
import pyx12.x12n_document

logging.getLogger('pyx12').addHandler(logging.NullHandler())
logging.getLogger('pyx12').propagate = False
for _n in ('pyx12.error_handler', 'pyx12.error_997', 'pyx12.error_999', 'pyx12.x12n_document', 'pyx12'):
    logging.getLogger(_n).setLevel(logging.CRITICAL + 1)

ENVK = {'ISA': 'ISA', 'GS': 'GS', 'ST': 'ST', 'SE': 'SE', 'GE': 'GE', 'IEA': 'IEA'}
_BASE = pyx12.error_handler.err_handler
_RE_REF = re.compile(r'^(?:[A-Z][A-Z0-9]{1,2})?([0-9]{2})(?:-([0-9]+))?$')


def S(v):
    return '' if v is None else str(v)


def SN(v):
    """like S but keeps the difference between None and '' (the 999 visitor tests `is None`)"""
    return '#NONE' if v is None else str(v)


WORDS = ('ISA', 'IEA', 'GS', 'GE', 'ST', 'SE')


def marks(err_str):
    """the visitors decide by these words in the message text which trailer/header an element error belongs to"""
    return [w for w in WORDS if w in S(err_str)]


def call(op, si, **kw):
    """uniform record (TLC wants one shape): strings default '', numbers default 0"""
    c = {'op': op, 'si': si, 'code': '', 'val': '', 'id': '', 'kind': '', 'x': '', 'y': [], 'pos': 0, 'sub': 0, 'ref': '',
         'cnt': '', 'recv': 0, 'rpos': 0, 'rsub': 0, 'apos': 0, 'info': []}
    c.update(kw)
    return c


class Recorder(_BASE):
    """err_handler that logs every mutator call before delegating to the real implementation"""
    instances = []

    def __init__(self):
        _BASE.__init__(self)
        self.calls = []
        self.si = 1            # index (1-based) of the input segment being processed
        self.valid_flags = []
        self.tree_before_visit = None
        Recorder.instances.append(self)

    def _log(self, op, **kw):
        self.calls.append(call(op, self.si, **kw))

    def on_segment_done(self, seg, src, node, valid):
        self.valid_flags.append(bool(valid))
        self.si += 1

    def add_isa_loop(self, seg_data, src):
        self._log('add_isa', id=S(seg_data.get_value('ISA13')), x=S(seg_data.get_value('ISA14')),
                  info=[S(seg_data.get_value('ISA%02d' % i)) for i in (5, 6, 7, 8, 11, 12, 15)])
        return _BASE.add_isa_loop(self, seg_data, src)

    def add_gs_loop(self, seg_data, src):
        self._log('add_gs', id=S(seg_data.get_value('GS06')), kind=S(seg_data.get_value('GS01')), x=SN(seg_data.get_value('GS08')),
                  info=[S(seg_data.get_value('GS%02d' % i)) for i in (2, 3, 6, 7)])
        return _BASE.add_gs_loop(self, seg_data, src)

    def add_st_loop(self, seg_data, src):
        self._log('add_st', id=S(seg_data.get_value('ST02')), kind=S(seg_data.get_value('ST01')), x=SN(seg_data.get_value('ST03')))
        return _BASE.add_st_loop(self, seg_data, src)

    def add_seg(self, map_node, seg_data, seg_count, cur_line, ls_id):
        self._log('add_seg', id=S(seg_data.get_seg_id()), pos=int(seg_count), x=S(ls_id))
        return _BASE.add_seg(self, map_node, seg_data, seg_count, cur_line, ls_id)

    def add_ele(self, map_node):
        if map_node.parent.is_composite():
            pos, sub = map_node.parent.seq, map_node.seq
        else:
            pos, sub = map_node.seq, 0
        self._last_ele_pos = int(pos)
        self._log('add_ele', pos=int(pos), sub=int(sub or 0), ref=S(map_node.data_ele))
        return _BASE.add_ele(self, map_node)

    def isa_error(self, err_cde, err_str):
        self._log('isa_error', code=S(err_cde))
        return _BASE.isa_error(self, err_cde, err_str)

    def gs_error(self, err_cde, err_str):
        self._log('gs_error', code=S(err_cde))
        return _BASE.gs_error(self, err_cde, err_str)

    def st_error(self, err_cde, err_str):
        self._log('st_error', code=S(err_cde))
        return _BASE.st_error(self, err_cde, err_str)

    def seg_error(self, err_cde, err_str, err_value=None, src_line=None):
        self._log('seg_error', code=S(err_cde), val=S(err_value))
        return _BASE.seg_error(self, err_cde, err_str, err_value, src_line)

    def ele_error(self, err_cde, err_str, bad_value, refdes=None):
        rpos = rsub = 0
        kind = ''
        if isinstance(refdes, int):
            kind = 'syntax'          # relational condition: refdes is the first element of the rule
            rpos = int(refdes)
        else:
            m = _RE_REF.match(S(refdes))
            if m:
                rpos, rsub = int(m.group(1)), int(m.group(2) or 0)
        self._log('ele_error', code=S(err_cde), val=S(bad_value), rpos=rpos, rsub=rsub, kind=kind, y=marks(err_str),
                  apos=getattr(self, '_last_ele_pos', 0))
        return _BASE.ele_error(self, err_cde, err_str, bad_value, refdes)

    def accept(self, visitor):
        # the visitors patch nodes they visit (visit_gs_post): keep the tree as validation left it
        if self.tree_before_visit is None:
            self.tree_before_visit = project_tree(self)
        return _BASE.accept(self, visitor)

    def close_isa_loop(self, node, seg, src):
        self._log('close_isa')
        return _BASE.close_isa_loop(self, node, seg, src)

    def close_gs_loop(self, node, seg, src):
        self._log('close_gs', cnt=S(seg.get_value('GE01')) if seg is not None else '', recv=int(src.st_count))
        return _BASE.close_gs_loop(self, node, seg, src)

    def close_st_loop(self, node, seg, src):
        self._log('close_st')
        return _BASE.close_st_loop(self, node, seg, src)


# ----------------------------------------------------------------------------- projections
def _errs2(errs):
    return [[S(e[0]), S(e[2]) if len(e) > 2 else ''] for e in errs]


def _ele(e):
    return {'pos': int(e.ele_pos or 0), 'sub': int(e.subele_pos or 0), 'ref': S(e.ele_ref_num), 'errs': _errs2(e.errors),
            'marks': [marks(x[1]) for x in e.errors]}


def project_tree(errh):
    out = []
    for isa in errh.children:
        gl = []
        for gs in isa.children:
            sl = []
            for st in gs.children:
                segs = []
                for sg in st.children:
                    segs.append({'id': S(sg.seg_id), 'pos': int(sg.seg_count), 'ls': S(sg.ls_id), 'errs': _errs2(sg.errors),
                                 'eles': [_ele(e) for e in sg.elements]})
                sl.append({'tsid': S(st.trn_set_id), 'id': S(st.trn_set_control_num), 'vriic': SN(st.vriic), 'ack': S(st.ack_code),
                           'closed': bool(st.is_closed()), 'errs': _errs2(st.errors), 'eles': [_ele(e) for e in st.elements], 'segs': segs})
            gl.append({'fic': S(gs.fic), 'id': S(gs.gs_control_num), 'vriic': SN(gs.vriic), 'ack': S(gs.ack_code),
                       'orig': int(gs.st_count_orig or 0), 'recv': int(gs.st_count_recv or 0), 'closed': bool(gs.is_closed()),
                       'errs': _errs2(gs.errors), 'eles': [_ele(e) for e in gs.elements], 'sets': sl})
        out.append({'id': S(isa.isa_trn_set_id), 'ta1': S(isa.ta1_req), 'closed': bool(isa.is_closed()),
                    'errs': _errs2(isa.errors), 'eles': [_ele(e) for e in isa.elements], 'groups': gl})
    return out


def envelope_hist(text):
    """independent pass of the real reader: what was received, in order"""
    hist = []
    try:
        rd = pyx12.x12file.X12Reader(io.StringIO(text))
    except Exception as e:
        return None, None
    for seg in rd:
        sid = seg.get_seg_id()
        k = ENVK.get(sid, 'B')
        def g(r):
            try:
                return S(seg.get_value(r))
            except Exception:
                return ''
        h = {'k': k, 'id': '', 'cnt': '', 'n': '', 'p': '', 'sid': S(sid), 'a': '', 'b': '', 'c': '', 'd': '', 'e': ''}
        if k == 'ISA':
            h.update(id=g('ISA13'), a=g('ISA05'), b=g('ISA06'), c=g('ISA07'), d=g('ISA08'), e=g('ISA14'), n=g('ISA12'))
        elif k == 'GS':
            h.update(id=g('GS06'), a=g('GS01'), b=g('GS02'), c=g('GS03'), d=g('GS08'))
        elif k == 'ST':
            h.update(id=g('ST02'), a=g('ST01'), d=g('ST03'))
        elif k in ('SE', 'GE', 'IEA'):
            h.update(id=g(sid + '02'), cnt=g(sid + '01'))
        hist.append(h)
    return hist, (rd.seg_term, rd.ele_term, rd.subele_term, rd.repetition_term)


def parse_ack(text):
    """split with the acknowledgement's own delimiters (position 3 / 104 / 105 of its ISA)"""
    if len(text) < 106 or not text.startswith('ISA'):
        return [], None
    et, ct, st = text[3], text[104], text[105]
    segs = []
    pieces = text.split(st)
    for i, p in enumerate(pieces):
        p = p.lstrip('\r\n')
        if i == len(pieces) - 1:
            if p.strip() != '':
                segs.append({'id': '#TAIL', 'e': [[p]]})     # text after the last terminator
            break
        el = p.split(et)
        if el[0] == 'ISA':
            segs.append({'id': 'ISA', 'e': [[x] for x in el[1:]]})
        else:
            segs.append({'id': el[0], 'e': [x.split(ct) for x in el[1:]]})
    return segs, (st, et, ct)


def reread(text):
    if not text:
        return []
    try:
        rd = pyx12.x12file.X12Reader(io.StringIO(text))
        errs = []
        for seg in rd:
            errs += rd.pop_errors()
        rd.cleanup()
        errs += rd.pop_errors()
        return [[S(e[0]), S(e[1])] for e in errs]
    except Exception as e:
        return [['exc', type(e).__name__]]


_loaded = []
_orig_load = pyx12.map_if.load_map_file


def _spy_load(map_file, param, map_path=None):
    _loaded.append(map_file)
    return _orig_load(map_file, param, map_path)


def validate(text, want_ack=True, record=True):
    """one run of the real validator; returns (verdict, recorder or None, ack text, exception name, maps loaded)"""
    param = pyx12.params.params()
    fd_ack = io.StringIO() if want_ack else None
    Recorder.instances = []
    del _loaded[:]
    pyx12.error_handler.err_handler = Recorder if record else _BASE
    pyx12.map_if.load_map_file = _spy_load
    exc = ''
    verdict = None
    rec = None

    def cb(seg, src, node, valid):
        if Recorder.instances:
            Recorder.instances[-1].on_segment_done(seg, src, node, valid)
    try:
        verdict = pyx12.x12n_document.x12n_document(param, io.StringIO(text), fd_ack, None, None, callback=cb if record else None)
    except Exception as e:
        exc = type(e).__name__ + ':' + str(e)[:80]
    finally:
        pyx12.error_handler.err_handler = _BASE
        pyx12.map_if.load_map_file = _orig_load
    if Recorder.instances:
        rec = Recorder.instances[-1]
    return verdict, rec, (fd_ack.getvalue() if fd_ack else ''), exc, list(_loaded)


def compress_calls(calls):
    """add_seg / add_ele only move the handler's cursors: of a run of them not interrupted by any other call keep the last add_ele, the add_seg
    it followed (the segment object it was announced for) and the last add_seg, in their order (keeps trace files small; nothing else is
    dropped or reordered)"""
    out = []
    run = []

    def flush():
        if not run:
            return
        last_seg = max([i for i, c in enumerate(run) if c['op'] == 'add_seg'], default=None)
        last_ele = max([i for i, c in enumerate(run) if c['op'] == 'add_ele'], default=None)
        keep = set(x for x in (last_seg, last_ele) if x is not None)
        if last_ele is not None:
            seg_of_ele = max([i for i, c in enumerate(run[:last_ele]) if c['op'] == 'add_seg'], default=None)
            if seg_of_ele is not None:
                keep.add(seg_of_ele)
        out.extend(run[i] for i in sorted(keep))
        del run[:]
    for c in calls:
        if c['op'] in ('add_seg', 'add_ele'):
            run.append(c)
        else:
            flush()
            out.append(c)
    flush()
    return out


def ack_map_of(maps):
    for m in maps:
        if m.startswith('997'):
            return '997'
        if m.startswith('999'):
            return '999'
    return ''


def run_doc(did, text, label='', faults=None, want_reval=True):
    """the complete record of one execution"""
    hist, terms = envelope_hist(text)
    if hist is None:
        return {'id': did, 'label': label, 'skip': 'not_x12'}
    verdict, rec, acktext, exc, maps = validate(text)
    r = {'id': did, 'label': label, 'exc': exc, 'hist': hist, 'src_terms': [S(t) for t in terms], 'faults': faults or []}
    if rec is None:
        r['skip'] = 'no_handler'
        return r
    r['calls'] = compress_calls(rec.calls)
    r['tree'] = rec.tree_before_visit if rec.tree_before_visit is not None else project_tree(rec)
    r['verdict'] = bool(verdict) if verdict is not None else False
    r['errcount'] = -1
    try:
        r['errcount'] = int(rec.get_error_count())
    except Exception:
        pass
    r['valid'] = all(rec.valid_flags)
    r['nseg'] = len(rec.valid_flags)
    ver = ''
    for h in hist:
        if h['k'] == 'GS':
            ver = h['d'][:6]
    fic = ''
    for h in hist:
        if h['k'] == 'GS':
            fic = h['a']
    r['ver'] = '4010' if ver == '004010' else ('5010' if ver == '005010' else '')
    r['last_fic'] = fic
    segs, aterms = parse_ack(acktext)
    r['acktext'] = acktext
    r['ack'] = segs
    r['written'] = acktext != ''
    r['reread'] = reread(acktext) if acktext else []
    r['reval'] = {'map': '', 'verdict': False, 'exc': '', 'ran': False, 'errs': [], 'msg': ''}
    if acktext and want_reval:
        v2, rec2, _a, exc2, maps2 = validate(acktext, want_ack=False)
        errs2 = []
        if rec2 is not None:
            last_ele = (0, 0)
            for c in rec2.calls:
                if c['op'] == 'add_ele':
                    last_ele = (c['pos'], c['sub'])
                if c['op'].endswith('_error'):
                    sid = segs[c['si'] - 1]['id'] if 1 <= c['si'] <= len(segs) else 'EOF'
                    pos = c['rpos'] if c['rpos'] else (last_ele[0] if c['op'] == 'ele_error' else 0)
                    errs2.append({'op': c['op'], 'code': c['code'], 'sid': sid, 'pos': pos})
        r['reval'] = {'map': ack_map_of(maps2), 'verdict': bool(v2), 'exc': exc2.split(':')[0], 'ran': True, 'errs': errs2[:12],
                      'msg': exc2[:120]}
    return r


# ============================================================================= corpus: documents built from the fixtures
class Raw(str):
    """a value injected verbatim (never re-delimited)"""


TERMS = {'std': ('~', '*', ':'), 'alt1': ('|', '^', '\\'), 'alt2': ('!', '+', '>'), 'nl': ('\n', '*', ':')}


def _fixture_sources():
    from pyx12.test.x12testdata import datafiles
    out = {k: datafiles[k]['source'] for k in datafiles if datafiles[k].get('source')}
    ex = os.path.join(vlib.REPO, 'pyx12', 'examples', 'multiple_st_loops.txt')
    if os.path.exists(ex):
        out['multiple_st_loops'] = open(ex).read()
    return out


def _split(text):
    st, et = text[105], text[3]
    segs = []
    for p in text.split(st):
        p = p.strip('\r\n')
        if p.strip() == '':
            continue
        segs.append(p.split(et))
    return segs


_BASES = None
BASE_KEYS_4010 = ['834_lui_id', '835id', 'simple_837p', 'repeat_init_segment', 'simple_837i', 'ordinal']
BASE_KEYS_5010 = ['834_lui_id_5010']


def bases():
    """valid transaction sets cut out of the repository fixtures: key -> dict(isa, gs, body)"""
    global _BASES
    if _BASES is not None:
        return _BASES
    src = _fixture_sources()
    out = {}
    for k in BASE_KEYS_4010 + BASE_KEYS_5010:
        if k not in src:
            continue
        segs = _split(src[k])
        isa = [s for s in segs if s[0] == 'ISA'][0]
        gs = [s for s in segs if s[0] == 'GS'][0]
        i0 = [i for i, s in enumerate(segs) if s[0] == 'ST'][0]
        i1 = [i for i, s in enumerate(segs) if s[0] == 'SE'][0]
        out[k] = {'isa': isa, 'gs': gs, 'st': segs[i0], 'body': segs[i0 + 1:i1], 'ver': '5010' if isa[12] == '00501' else '4010'}
    # a short 834 (faster runs; still valid)
    for k, nk in (('834_lui_id', '834_short'), ('834_lui_id_5010', '834_short_5010')):
        if k in out:
            b = dict(out[k])
            keep = ('BGN', 'N1', 'INS', 'REF', 'DTP', 'NM1')
            body, seen_ref = [], 0
            for s in b['body']:
                if s[0] == 'DTP' and s[1] == '007':
                    body.append(s)
                elif s[0] in ('BGN', 'N1', 'INS', 'NM1'):
                    body.append(s)
                elif s[0] == 'REF' and s[1] == '0F':
                    body.append(s)
                elif s[0] == 'DTP' and s[1] == '356':
                    body.append(s)
            b['body'] = body
            out[nk] = b
    _BASES = out
    return out


def L(el, blank=False, trail=False):
    return {'el': list(el), 'blank': blank, 'trail': trail}


def render(lines, terms, eol='\n'):
    st, et, ct = terms
    out = []
    for ln in lines:
        parts = []
        for i, v in enumerate(ln['el']):
            if isinstance(v, Raw) or ln['el'][0] == 'ISA':
                parts.append(str(v))
            else:
                parts.append(str(v).replace(':', ct) if ct != ':' else str(v))
        txt = et.join(parts)
        if ln['el'][0] == 'ISA':
            txt = et.join(parts[:16]) + et + ct
        out.append((' ' if ln['blank'] else '') + txt + (et if ln['trail'] else '') + st + (eol if st != '\n' else ''))
    return ''.join(out)


def make_set(base, st_id, ver):
    b = bases()[base]
    st = ['ST', b['st'][1], st_id] + ([b['st'][3]] if len(b['st']) > 3 else [])
    return [L(st)] + [L(s) for s in b['body']]


def close_set(lines, st_id, cnt_delta=0, se_id=None, omit=False):
    if omit:
        return lines
    return lines + [L(['SE', str(len(lines) + 1 + cnt_delta), se_id if se_id is not None else st_id])]


def make_doc(spec, terms_key='std'):
    """spec: {'ver', 'isas': [{'id', 'groups': [{'base', 'id', 'sets': [{'id', 'mut': [...], 'se': {...}}], 'ge': {...}, 'pre': [...]}], 'iea': {...}}],
              'cut': number of trailing lines dropped}
       returns (text, info) where info maps (isa idx, group idx, set idx) -> first line index (1-based) of the set"""
    terms = TERMS[terms_key]
    lines = []
    for ii, isa in enumerate(spec['isas']):
        g0 = bases()[isa['groups'][0]['base']] if isa['groups'] else bases()['834_short']
        hdr = list(g0['isa'])
        hdr[13] = isa['id']
        if isa.get('ta1') is not None:
            hdr[14] = isa['ta1']
        if isa.get('isa11') is not None:
            hdr[11] = isa['isa11']
        if isa.get('snd') is not None:
            hdr[6] = isa['snd'].ljust(15)[:15]
        lines.append(L(hdr, blank=isa.get('blank', False)))
        ngs = 0
        for gi, g in enumerate(isa['groups']):
            b = bases()[g['base']]
            gs = list(b['gs'])
            gs[6] = g['id']
            for pos, val in g.get('gs_ele', []):
                gs[pos] = val
            for x in g.get('pre', []):
                lines.append(L(x))
            lines.append(L(gs, blank=g.get('blank', False), trail=g.get('trail', False)))
            ngs += 1
            nst = 0
            for si, s in enumerate(g['sets']):
                for x in s.get('pre', []):
                    lines.append(L(x))
                sl = make_set(g['base'], s['id'], b['ver'])
                if s.get('blank'):
                    sl[0]['blank'] = True
                if s.get('trail'):
                    sl[0]['trail'] = True
                for m in s.get('mut', []):
                    apply_mut(sl, m)
                nst += 1
                se = s.get('se', {})
                sl = close_set(sl, s['id'], se.get('cnt', 0), se.get('id'), se.get('omit', False))
                if not se.get('omit') and se.get('blank'):
                    sl[-1]['blank'] = True
                if not se.get('omit') and se.get('trail'):
                    sl[-1]['trail'] = True
                if not se.get('omit') and se.get('extra'):
                    sl[-1]['el'].append(se['extra'])
                if not se.get('omit') and se.get('pad'):
                    sl[-1]['el'][1] = sl[-1]['el'][1].rjust(11, '0')
                lines += sl
            for x in g.get('tail', []):
                lines.append(L(x))
            ge = g.get('ge', {})
            if not ge.get('omit'):
                cnt = ge.get('raw_cnt') if ge.get('raw_cnt') is not None else str(nst + ge.get('cnt', 0))
                if ge.get('pad'):
                    cnt = cnt.rjust(7, '0')
                lines.append(L(['GE', cnt, ge.get('id') if ge.get('id') is not None else g['id']] + ([ge['extra']] if ge.get('extra') else []),
                               blank=ge.get('blank', False), trail=ge.get('trail', False)))
            for x in g.get('post', []):
                lines.append(L(x))
        iea = isa.get('iea', {})
        if not iea.get('omit'):
            lines.append(L(['IEA', str(ngs + iea.get('cnt', 0)), iea.get('id') if iea.get('id') is not None else isa['id']],
                           trail=iea.get('trail', False), blank=iea.get('blank', False)))
    if spec.get('cut'):
        lines = lines[:-spec['cut']]
    # the ISA carries the source delimiters; translate its own separators
    st, et, ct = terms
    text = render(lines, terms, spec.get('eol', '\n'))
    return text


def apply_mut(sl, m):
    """sl: lines of one set (ST first, SE not yet appended)"""
    kind = m[0]
    if kind == 'ele':        # ('ele', body index (1 = first after ST), element position, value)
        _k, i, pos, val = m
        if i < len(sl):
            el = sl[i]['el']
            while len(el) <= pos:
                el.append('')
            el[pos] = val
    elif kind == 'ins':      # ('ins', index, [elements])
        sl.insert(min(m[1], len(sl)), L(m[2]))
    elif kind == 'del':
        if 0 < m[1] < len(sl):
            del sl[m[1]]
    elif kind == 'dup':
        if 0 < m[1] < len(sl):
            sl.insert(m[1], L(list(sl[m[1]]['el'])))
    elif kind == 'blank':
        if m[1] < len(sl):
            sl[m[1]]['blank'] = True
    elif kind == 'trail':
        if m[1] < len(sl):
            sl[m[1]]['trail'] = True
    elif kind == 'st_ele':   # ('st_ele', position, value) on the ST itself
        el = sl[0]['el']
        while len(el) <= m[1]:
            el.append('')
        el[m[1]] = m[2]
    elif kind == 'st_trunc':  # ('st_trunc', n): the ST keeps its first n elements (id included)
        del sl[0]['el'][m[1]:]


# ----------------------------------------------------------------------------- fault catalogue
AN_TARGETS = {'N1': 2, 'N3': 1, 'N4': 1, 'REF': 2, 'NM1': 3, 'PER': 2, 'TRN': 2}
VALS = {'plain': 'X' * 70, 'TERM': 'AB~CD' + 'X' * 65, 'ELE': 'AB*CD' + 'X' * 65, 'SUB': 'AB:CD' + 'X' * 65, 'REP': 'AB^CD' + 'X' * 65,
        'MIX': 'A~B*C:D^E' + 'X' * 61, 'LONG': 'L' * 100 + 'M' * 40}


def usable_vals(terms_key, ver):
    t = TERMS[terms_key]
    out = []
    for k, v in VALS.items():
        if any(c in v for c in t):
            continue
        out.append(k)
    return out


def an_targets(base):
    """(body index, element position) of AN elements that accept an over-long value"""
    out = []
    for i, s in enumerate(bases()[base]['body']):
        if s[0] in AN_TARGETS and len(s) > AN_TARGETS[s[0]] and s[AN_TARGETS[s[0]]] != '':
            out.append((i + 1, AN_TARGETS[s[0]]))
    return out


def date_targets(base):
    out = []
    for i, s in enumerate(bases()[base]['body']):
        if s[0] == 'DTP' and len(s) > 3 and s[2] == 'D8':
            out.append((i + 1, 3))
    return out


SET_FAULTS = ['ele_plain', 'ele_LONG', 'ele_srcsub', 'ele_TERM', 'ele_ELE', 'ele_SUB', 'ele_REP', 'ele_MIX', 'ele_date', 'ele_missing', 'ele_two_same_seg', 'ele_two_segs',
              'ele_extra', 'ele_extra_special', 'seg_unknown', 'seg_unknown_first', 'seg_unknown_last', 'seg_dup_first', 'seg_missing_first',
              'seg_trail', 'seg_blank', 'seg_unknown_blank', 'st_trail', 'st_extra_ele', 'st02_long', 'st02_absent', 'st02_sep', 'st03_sep', 'segid_sep', 'st_blank', 'st_dup_id', 'se_cnt', 'se_id',
              'se_omit', 'se_trail', 'se_blank', 'se_extra_ele', 'seg_two_errors']
GROUP_FAULTS = ['gs_blank', 'gs_trail', 'gs_dup_id', 'gs06_long', 'gs06_sep', 'gs08_bad', 'ge_cnt', 'ge_id', 'ge_omit', 'ge_trail', 'ge_blank', 'ge_extra_ele',
                'stray_before_st', 'stray_between_sets', 'stray_after_ge', 'stray_before_ge']
ISA_FAULTS = ['isa11_sep', 'isa_dup_id', 'iea_cnt', 'iea_id', 'iea_omit', 'iea_trail', 'ta1', 'cut1', 'cut2', 'cut3', 'cut_mid']
CRASH_FAULTS = ['ge_nonnum']


def apply_fault(spec, f, ii, gi, si, terms_key, rnd):
    """mutate spec in place; returns False if the fault is not applicable"""
    isa = spec['isas'][ii]
    g = isa['groups'][gi]
    s = g['sets'][si]
    base = g['base']
    ver = bases()[base]['ver']
    mut = s.setdefault('mut', [])
    nbody = len(bases()[base]['body'])
    if f.startswith('ele_') and f[4:] in VALS:
        cls = f[4:]
        if cls not in usable_vals(terms_key, ver):
            return False
        tg = an_targets(base)
        if not tg:
            return False
        i, pos = rnd.choice(tg)
        mut.append(('ele', i, pos, Raw(VALS[cls])))
    elif f == 'ele_srcsub':
        # a simple element that carries the SOURCE's own component separator: it is read as a composite, reported as an invalid
        # composite (6), and the echoed value then holds a separator of the source - which may be one of the acknowledgement too
        tg = an_targets(base)
        if not tg:
            return False
        i, pos = rnd.choice(tg)
        mut.append(('ele', i, pos, Raw('0038' + TERMS[terms_key][2] + '9999')))
    elif f == 'ele_far':
        tg = [(i + 1, x[0]) for i, x in enumerate(bases()[base]['body']) if x[0] in ('HD', 'HI')]
        if not tg:
            return False
        i, sid = rnd.choice(tg)
        mut.append(('ele', i, 10, Raw('ZZ')))          # HD10 is not used; HI10-1 'ZZ' is no code list qualifier and HI10-2 is then missing
    elif f == 'ele_date':
        tg = date_targets(base)
        if not tg:
            return False
        i, pos = rnd.choice(tg)
        mut.append(('ele', i, pos, Raw('20079999')))
    elif f == 'ele_missing':
        tg = an_targets(base)
        if not tg:
            return False
        i, pos = rnd.choice(tg)
        mut.append(('ele', i, pos, Raw('')))
    elif f == 'ele_two_same_seg':
        tg = [t for t in an_targets(base) if bases()[base]['body'][t[0] - 1][0] in ('NM1', 'N4')]
        if not tg:
            return False
        i, pos = rnd.choice(tg)
        mut.append(('ele', i, pos, Raw(VALS['plain'])))
        mut.append(('ele', i, pos + 1, Raw('Y' * 90)))
    elif f == 'ele_two_segs':
        tg = an_targets(base)
        if len(tg) < 2:
            return False
        (i, pos), (j, pos2) = rnd.sample(tg, 2)
        mut.append(('ele', i, pos, Raw(VALS['plain'])))
        mut.append(('ele', j, pos2, Raw('Y' * 75)))
    elif f in ('ele_extra', 'ele_extra_special'):
        i = rnd.randint(1, nbody)
        n = len(bases()[base]['body'][i - 1])
        val = 'EXTRA'
        if f == 'ele_extra_special':
            ok = [k for k in usable_vals(terms_key, ver) if k not in ('plain',)]
            if not ok:
                return False
            val = VALS[rnd.choice(ok)][:9]
        for k in range(n, n + 26):
            mut.append(('ele', i, k, Raw(val)))
    elif f == 'seg_unknown':
        mut.append(('ins', rnd.randint(2, nbody), ['ZZZ', '1']))
    elif f == 'seg_unknown_first':
        mut.append(('ins', 1, ['ZZZ', '1']))
    elif f == 'seg_unknown_last':
        mut.append(('ins', nbody + 1, ['ZZZ', '1']))
    elif f == 'seg_unknown_blank':
        mut.append(('ins', rnd.randint(2, nbody), ['ZZZ', '1']))
        mut.append(('blank', mut[-1][1]))
    elif f == 'seg_dup_first':
        mut.append(('dup', 1))
    elif f == 'seg_missing_first':
        mut.append(('del', 1))
    elif f == 'seg_trail':
        mut.append(('trail', rnd.randint(1, nbody)))
    elif f == 'seg_blank':
        mut.append(('blank', rnd.randint(1, nbody)))
    elif f == 'seg_two_errors':
        i = rnd.randint(2, nbody)
        mut.append(('ins', i, ['ZZZ', '1']))
        mut.append(('trail', i))
    elif f == 'st_trail':
        mut.append(('trail', 0))
    elif f == 'st_extra_ele':
        mut.append(('st_ele', 4 if ver == '5010' else 3, Raw('X')))
    elif f == 'st02_long':
        s['id'] = '1234567890'
    elif f == 'st02_absent':
        # the set control number is not there at all: the acknowledgement still has to name the set and stay complete
        if ver == '5010':
            mut.append(('st_ele', 2, Raw('')))
        else:
            mut.append(('st_trunc', 2))
    elif f == 'isa11_sep':
        # ISA11 (repetition separator / standards id) of the SOURCE is a separator of the acknowledgement
        t = TERMS[terms_key]
        seps = [c for c in ('*', ':', '~') if c not in t]
        if not seps:
            return False
        isa['isa11'] = rnd.choice(seps)
    elif f in ('st02_sep', 'st03_sep', 'segid_sep', 'gs06_sep'):
        # values the acknowledgement echoes OUTSIDE AK404/IK404 - control numbers, segment identifiers - holding separators of the
        # acknowledgement itself (possible when the source uses other ones)
        t = TERMS[terms_key]
        seps = [c for c in ('*', ':', '~') if c not in t]
        if not seps:
            return False
        c = rnd.choice(seps)
        if f == 'st03_sep':
            if ver != '5010':
                return False
            mut.append(('st_ele', 3, Raw('0050' + c + '0X220A1')))       # ST03 (5010): echoed into AK203
        elif f == 'st02_sep':
            s['id'] = Raw('0' + c + '01')
        elif f == 'gs06_sep':
            g['id'] = Raw('1' + c + '2')
        else:
            mut.append(('ins', rnd.randint(2, nbody), [Raw('Z' + c + 'Z'), '1']))
    elif f == 'st_blank':
        mut.append(('blank', 0))
    elif f == 'st_dup_id':
        if si == 0:
            return False
        s['id'] = g['sets'][si - 1]['id']
    elif f == 'se_cnt':
        s.setdefault('se', {})['cnt'] = rnd.choice([1, -1, 5])
    elif f == 'se_id':
        s.setdefault('se', {})['id'] = '9999'
    elif f == 'se_omit':
        s.setdefault('se', {})['omit'] = True
    elif f == 'se_trail':
        s.setdefault('se', {})['trail'] = True
    elif f == 'se_blank':
        s.setdefault('se', {})['blank'] = True
    elif f == 'se_extra_ele':
        s.setdefault('se', {})['extra'] = Raw('X')
    elif f == 'gs_blank':
        g['blank'] = True
    elif f == 'gs_trail':
        g['trail'] = True
    elif f == 'gs_dup_id':
        if gi == 0:
            return False
        g['id'] = isa['groups'][gi - 1]['id']
    elif f == 'gs06_long':
        g['id'] = '1234567890'
    elif f == 'gs08_bad':
        return False
    elif f == 'ge_cnt':
        g.setdefault('ge', {})['cnt'] = rnd.choice([1, -1, 3])
    elif f == 'ge_id':
        g.setdefault('ge', {})['id'] = '777'
    elif f == 'ge_omit':
        g.setdefault('ge', {})['omit'] = True
    elif f == 'ge_trail':
        g.setdefault('ge', {})['trail'] = True
    elif f == 'ge_blank':
        g.setdefault('ge', {})['blank'] = True
    elif f == 'ge_extra_ele':
        g.setdefault('ge', {})['extra'] = Raw('X')
    elif f == 'ge_nonnum':
        g.setdefault('ge', {})['raw_cnt'] = 'X'
    elif f == 'stray_before_st':
        g['sets'][0].setdefault('pre', []).append(['ZZZ', '1'])
    elif f == 'stray_between_sets':
        if si == 0:
            return False
        s.setdefault('pre', []).append(['ZZZ', '1'])
    elif f == 'stray_after_ge':
        g.setdefault('post', []).append(['ZZZ', '1'])
    elif f == 'stray_before_ge':
        # an unknown segment after the last SE of the group
        g.setdefault('ge', {})
        g['sets'].append({'id': 'X', 'virtual': True}) if False else None
        g.setdefault('tail', []).append(['ZZZ', '1'])
        return False
    elif f == 'isa_dup_id':
        if ii == 0:
            return False
        isa['id'] = spec['isas'][ii - 1]['id']
    elif f == 'iea_cnt':
        isa.setdefault('iea', {})['cnt'] = 1
    elif f == 'iea_id':
        isa.setdefault('iea', {})['id'] = '000000999'
    elif f == 'iea_omit':
        isa.setdefault('iea', {})['omit'] = True
    elif f == 'iea_trail':
        isa.setdefault('iea', {})['trail'] = True
    elif f == 'ta1':
        isa['ta1'] = '1'
    elif f in ('cut1', 'cut2', 'cut3'):
        spec['cut'] = int(f[3])
    elif f == 'cut_mid':
        spec['cut'] = rnd.randint(4, 4 + nbody)
    else:
        return False
    return True


def shape_spec(bases_for_groups, n_isa, n_gs, n_st, rnd=None):
    """a clean document: n_isa interchanges x n_gs groups x n_st sets"""
    isas = []
    for i in range(n_isa):
        groups = []
        for g in range(n_gs):
            b = bases_for_groups[(i * n_gs + g) % len(bases_for_groups)]
            groups.append({'base': b, 'id': str(100 * (i + 1) + g + 1), 'sets': [{'id': '%04d' % (s + 1)} for s in range(n_st)]})
        isas.append({'id': '%09d' % (i + 1), 'groups': groups})
    return {'isas': isas}


def inputs(tier, seed):
    """the document corpus: list of (label, text, faults).  More corpora can be appended here."""
    import random
    rnd = random.Random(seed * 7919 + 5)
    q = tier == 'quick'
    out = []
    B4 = ['834_short', '835id', 'simple_837p', 'repeat_init_segment'] + ([] if q else ['834_lui_id', 'simple_837i', 'ordinal'])
    B5 = ['834_short_5010'] + ([] if q else ['834_lui_id_5010'])

    def emit(label, spec, tk, faults):
        try:
            text = make_doc(spec, tk)
        except Exception as e:
            return
        out.append((label, text, faults))

    # A: every single fault on a one-group document (2 sets so that "previous set" faults apply), both versions, several delimiter sets
    for base in B4 + B5:
        ver = bases()[base]['ver']
        tks = ['std', 'alt2'] + (['alt1'] if ver == '4010' else []) + ([] if q else ['nl'])
        for tk in tks:
            for f in SET_FAULTS + GROUP_FAULTS + ISA_FAULTS:
                if q and base not in ('834_short', '834_short_5010') and rnd.random() < 0.6:
                    continue
                for where in ((0, 0, 1), (0, 1, 0)) if not q else ((0, 0, 1),):
                    spec = shape_spec([base], 1, 2, 2)
                    if apply_fault(spec, f, where[0], where[1], where[2], tk, rnd):
                        emit('A:%s:%s:%s@%d.%d.%d' % (base, tk, f, where[0], where[1], where[2]), spec, tk, [f])
    # B: shapes x random fault combinations (multi-set / multi-group / multi-interchange)
    nB = 250 if q else 2500
    allf = SET_FAULTS + GROUP_FAULTS + ISA_FAULTS
    for n in range(nB):
        ver5 = rnd.random() < 0.4
        pool = B5 if ver5 else B4
        n_isa, n_gs, n_st = rnd.choice([1, 1, 2]), rnd.choice([1, 2, 2, 3]), rnd.choice([1, 2, 3])
        bs = [rnd.choice(pool) for _ in range(n_isa * n_gs)]
        if q:
            bs = [b if b not in ('simple_837i',) else '834_short' for b in bs]
        spec = shape_spec(bs, n_isa, n_gs, n_st)
        tk = rnd.choice(['std', 'std', 'alt2'] + ([] if ver5 else ['alt1']))
        fs = []
        for _ in range(rnd.choice([0, 1, 1, 2, 2, 3, 4])):
            f = rnd.choice(allf)
            ii, gi, si = rnd.randrange(n_isa), rnd.randrange(n_gs), rnd.randrange(n_st)
            if apply_fault(spec, f, ii, gi, si, tk, rnd):
                fs.append('%s@%d.%d.%d' % (f, ii, gi, si))
        emit('B:%dx%dx%d:%s:%s' % (n_isa, n_gs, n_st, tk, '+'.join(fs)), spec, tk, fs)
    # C: the repository fixtures as they are, and seeded concatenations of them (multi-interchange files)
    src = _fixture_sources()
    keys = sorted(src)
    for k in keys:
        out.append(('C:' + k, src[k], []))
    for _ in range(8 if q else 60):
        a, b = rnd.choice(keys), rnd.choice(keys)
        if src[a][:106][84:89] == src[b][:106][84:89] and src[a][103:106] == src[b][103:106]:
            out.append(('C:%s+%s' % (a, b), src[a].rstrip('\r\n') + '\n' + src[b], []))
    # D: inputs on which validation does not complete (int(GE01)): recorded, no claim
    spec = shape_spec(['834_short'], 1, 1, 1)
    apply_fault(spec, 'ge_nonnum', 0, 0, 0, 'std', rnd)
    emit('D:ge_nonnum', spec, 'std', ['ge_nonnum'])
    # E: element errors at two-digit positions of segments with a two-letter id (reference designators such as HI10-1, HD10);
    # appended last, with a generator of its own, so that the corpora above stay as they were
    rnd_e = random.Random(seed * 104729 + 11)
    for base in ('simple_837p', '834_lui_id_5010', 'simple_837i'):
        for tk in ('std', 'alt2'):
            spec = shape_spec([base], 1, 1, 2)
            if apply_fault(spec, 'ele_far', 0, 0, 1, tk, rnd_e):
                emit('E:%s:%s:ele_far@0.0.1' % (base, tk), spec, tk, ['ele_far'])
    return out


# ============================================================================= scenarios generated by TLC (spec/AckGen.tla) -> documents
MODEL_VALS = {'v': 'plain', 'a~b': 'TERM', 'a*b': 'ELE', 'a:b': 'SUB', 'a^b': 'REP', '': 'plain'}


def scenario_to_doc(scn, rnd, ver):
    """realise an abstract input of the generator model as a real document (fixture sets + injected faults)"""
    evs = scn['evs']
    base = rnd.choice(['834_short', '835id', 'repeat_init_segment'] if ver == '4010' else ['834_short_5010'])
    special = any(MODEL_VALS.get(e['val'], 'plain') != 'plain' for e in evs if e['k'] == 'B')
    tk = 'alt2' if special else rnd.choice(['std', 'std', 'alt2'])
    spec = {'isas': []}
    isa = g = s = None
    pend = []          # stray lines waiting for the next header
    body_i = 0
    nbody = len(bases()[base]['body'])
    tg = an_targets(base)

    def close_open(level):
        # loops left open by the scenario lose their trailer
        nonlocal s, g, isa
        if level <= 3 and s is not None:
            s.setdefault('se', {})['omit'] = True
            s = None
        if level <= 2 and g is not None:
            g.setdefault('ge', {})['omit'] = True
            g = None
        if level <= 1 and isa is not None:
            isa.setdefault('iea', {})['omit'] = True
            isa = None
    for e in evs:
        k, var = e['k'], e['var']
        if k == 'ISA':
            close_open(1)
            isa = {'id': e['id'].rjust(9, '0'), 'groups': []}
            if var == 'ta1':
                isa['ta1'] = '1'
            spec['isas'].append(isa)
        elif k == 'GS':
            close_open(2)
            if isa is None:
                return None
            gid = ('000000000' + e['id']) if var == 'eleerr' else str(100 * len(spec['isas']) + int(e['id']))
            g = {'base': base, 'id': gid, 'sets': [], 'mid': e['id']}
            if var == 'blank':
                g['blank'] = True
            if var == 'trail':
                g['trail'] = True
            if pend:
                g['pre'] = pend
                pend = []
            isa['groups'].append(g)
        elif k == 'ST':
            close_open(3)
            if g is None:
                return None
            sid = ('000000000' + e['id']) if var == 'eleerr' else '%04d' % int(e['id'])
            s = {'id': sid, 'mut': [], 'mid': e['id']}
            if var == 'blank':
                s['blank'] = True
            if var == 'trail':
                s['trail'] = True
            if pend:
                s['pre'] = pend
                pend = []
            g['sets'].append(s)
            body_i = 0
        elif k == 'B':
            if s is None:
                pend.append(['ZZZ', '1'])
                continue
            cls = MODEL_VALS.get(e['val'], 'plain')
            val = Raw(VALS[cls])
            first = body_i == 0
            lo = body_i + 1
            if lo > nbody:
                continue
            if var == 'clean':
                continue
            if var == 'missing' and first:
                s['mut'].append(('del', 1))
                body_i = 1
                continue
            if var == 'overmax' and first:
                s['mut'].append(('dup', 1))
                body_i = 2
                continue
            later = [t for t in tg if t[0] >= lo]
            if var in ('ele', 'elenonstd', 'ele2') and later:
                i, pos = later[0]
                s['mut'].append(('ele', i, pos, val))
                if var == 'ele2':
                    s['mut'].append(('ele', i, pos + 1, Raw('Y' * 90)))
                body_i = i
            elif var == 'toomany':
                i = lo
                n = len(bases()[base]['body'][i - 1])
                for q in range(n, n + 26):
                    s['mut'].append(('ele', i, q, Raw(str(val)[:9])))
                body_i = i
            elif var in ('trail', 'nonstd'):
                s['mut'].append(('trail', lo))
                body_i = lo
            elif var == 'blank':
                s['mut'].append(('blank', lo))
                body_i = lo
            else:     # unknown, two, and everything that could not be placed
                # insertions shift later indexes: keep them at the end of what was used so far
                s['mut'].append(('ins', lo + sum(1 for m in s['mut'] if m[0] == 'ins'), ['ZZZ', '1']))
                body_i = lo
        elif k == 'SE':
            if s is None:
                return None
            se = s.setdefault('se', {})
            if e['id'] != s['mid']:
                se['id'] = '9999'
            if e['cnt'] != e['right']:
                se['cnt'] = 1
            if var == 'blank':
                se['blank'] = True
            if var == 'trail':
                se['trail'] = True
            if var == 'eleerr':
                se['pad'] = True
            s = None
        elif k == 'GE':
            if s is not None:
                s.setdefault('se', {})['omit'] = True
                s = None
            if g is None:
                return None
            ge = g.setdefault('ge', {})
            if pend:
                g['tail'] = pend
                pend = []
            if e['id'] != g['mid']:
                ge['id'] = '777'
            if e['cnt'] != e['right']:
                ge['cnt'] = 1
            if var == 'blank':
                ge['blank'] = True
            if var == 'trail':
                ge['trail'] = True
            if var == 'eleerr':
                ge['pad'] = True
            g = None
        elif k == 'IEA':
            close_open(2)
            if isa is None:
                return None
            iea = isa.setdefault('iea', {})
            if pend and isa['groups']:
                isa['groups'][-1].setdefault('post', []).extend(pend)
                pend = []
            if e['id'].rjust(9, '0') != isa['id']:
                iea['id'] = '000000999'
            if e['cnt'] != e['right']:
                iea['cnt'] = 1
            if var == 'blank':
                iea['blank'] = True
            if var == 'trail':
                iea['trail'] = True
            isa = None
    close_open(1)
    for i in spec['isas']:
        if not i['groups']:
            return None
    try:
        return make_doc(spec, tk)
    except Exception:
        return None


# ============================================================================= the check (shared by c05.py / c06.py)
KEEP = ('id', 'ver', 'hist', 'calls', 'tree', 'verdict', 'valid', 'errcount', 'ack', 'written', 'reread', 'reval', 'exc')
SIGKEYS = {
    'verdict_vs_tree': ('verdict', 'first_reported', None),
    'addressed_to_sender': (None, None, None),
    'groups_named_in_order': ('how', 'ack_text', 'input'),
    'sets_named_in_order': ('ack_text', 'input', None),
    'set_code': ('ack_code', 'want', 'first_reported_inside'),
    'group_code': ('ack_code', 'want', 'first_reported_inside'),
    'group_totals': ('field', 'group_closed', 'ack_value'),
    'itemised_segment_error': ('why', 'code', None),
    'itemised_element_error': ('why', 'code', 'circumstance'),
    'complete': ('cause', None, None),
    'se_count': ('echo_class', None, None), 'ge_count': ('echo_class', None, None), 'iea_count': ('echo_class', None, None),
    'trailer_ids': ('echo_class', None, None), 'st_unique': ('echo_class', None, None),
    'structure_preserved_by_echo': ('line', 'what', 'echo_class'),
    'reread_clean': ('level', 'code', 'echo_class'),
    'revalidate_selects_ack_map': ('map_selected', 'exc', None),
    'revalidate_accepts_when_values_fit': ('what', 'segment', 'code'),
}
ALLB = ('clean', 'unknown', 'missing', 'overmax', 'trail', 'blank', 'nonstd', 'two', 'ele', 'ele2', 'elenonstd', 'toomany')
MVALS = ('v', 'a~b', 'a*b', 'a:b', 'a^b')


def gen_cfg(ver='4010', mi=1, mg=1, ms=1, mb=1, envv=('ok',), bodyv=('clean', 'unknown', 'ele'), vals=('v',), idm=('fresh',), trm=('rr',),
            sloppy=False, trunc=False, strays=False, ta1=False):
    S = lambda xs: '{' + ','.join('"%s"' % x for x in xs) + '}'
    B = lambda b: 'TRUE' if b else 'FALSE'
    c = 'SPECIFICATION Spec\nCONSTANTS Ver = "%s"\n MaxIsa = %d\n MaxGs = %d\n MaxSt = %d\n MaxBody = %d\n' % (ver, mi, mg, ms, mb)
    c += ' EnvVars = %s\n BodyVars = %s\n Vals = %s\n IdModes = %s\n TrModes = %s\n' % (S(envv), S(bodyv), S(vals), S(idm), S(trm))
    c += ' Sloppy = %s\n Truncate = %s\n Strays = %s\n Ta1 = %s\n' % (B(sloppy), B(trunc), B(strays), B(ta1))
    for i in ('Unexplained', 'AllExplained', 'PlainPreserved', 'VerdictSound', 'ModelDiff', 'Emit'):
        c += 'INVARIANT %s\n' % i
    return c


def model_configs(prop, tier):
    """(label, cfg text, simulate or None, depth): bounded explorations of spec/AckGen.tla"""
    q = tier == 'quick'
    out = []
    if prop == 'C05':
        out.append(('env-variants-997', gen_cfg(envv=('ok', 'blank', 'trail', 'eleerr'), bodyv=('clean', 'ele'), trm=('rr',)), None, 0))
        out.append(('trailers-997', gen_cfg(ms=2, bodyv=('ele',), idm=('fresh', 'dup'), trm=('rr', 'wr', 'rw')), None, 0))
        out.append(('wide-997', gen_cfg(mi=2, mg=2, ms=1 if q else 2, bodyv=('ele',)), None, 0))
        out.append(('strays-trunc-999', gen_cfg(ver='5010', mg=2 if not q else 1, ms=2, bodyv=('unknown', 'ele'), strays=True, trunc=True), None, 0))
        if not q:
            out.append(('env-variants-999', gen_cfg(ver='5010', envv=('ok', 'blank', 'trail', 'eleerr'), bodyv=('clean', 'ele'), trm=('rr',), ta1=True), None, 0))
            out.append(('sloppy-997', gen_cfg(mg=2, ms=1, bodyv=('ele',), sloppy=True, trunc=True, strays=True), None, 0))
            out.append(('body2-997', gen_cfg(mb=2, bodyv=ALLB, vals=MVALS), None, 0))
    else:
        out.append(('echo-body-997', gen_cfg(mb=2 if not q else 1, bodyv=ALLB, vals=MVALS), None, 0))
        out.append(('echo-body-999', gen_cfg(ver='5010', mb=2 if not q else 1, bodyv=ALLB, vals=MVALS), None, 0))
        out.append(('wide-997', gen_cfg(mi=2, mg=2, ms=1 if q else 2, bodyv=('ele',)), None, 0))
        out.append(('wide-999', gen_cfg(ver='5010', mi=2, mg=2, ms=2 if not q else 1, bodyv=('ele',)), None, 0))
        out.append(('env-variants-997', gen_cfg(envv=('ok', 'trail', 'eleerr'), bodyv=('clean', 'ele'), trm=('rr',)), None, 0))
        if not q:
            out.append(('trunc-999', gen_cfg(ver='5010', mg=2, ms=2, bodyv=('unknown', 'ele'), strays=True, trunc=True), None, 0))
            out.append(('sloppy-997', gen_cfg(mg=2, ms=1, bodyv=('ele',), sloppy=True, trunc=True, strays=True), None, 0))
    big = gen_cfg(ver='4010', mi=2, mg=2, ms=3, mb=2, envv=('ok', 'blank', 'trail', 'eleerr'), bodyv=ALLB, vals=MVALS, idm=('fresh', 'dup'),
                  trm=('rr', 'wr', 'rw'), sloppy=False, trunc=True, strays=True, ta1=True)
    out.append(('simulate-full-bounds-997', big, 'num=%d' % (60 if q else 500), 70))
    out.append(('simulate-full-bounds-999', big.replace('Ver = "4010"', 'Ver = "5010"'), 'num=%d' % (40 if q else 350), 70))
    return out


def run_models(chk, prop, tier, rnd):
    import json
    scns = []
    diffs = {}
    for label, cfg, sim, depth in model_configs(prop, tier):
        if sim:
            res = vlib.run_tlc('AckGen', cfg, simulate=sim, depth=depth, workers=1, timeout=1500, tag='AckGen')
        else:
            res = vlib.run_tlc('AckGen', cfg, timeout=2400, tag='AckGen')
        if res.error:
            raise vlib.MachineryError('AckGen %s: %s' % (label, res.error))
        un = res.payloads.get('UNEXPLAINED', [])
        if un or res.violated:
            raise vlib.MachineryError('AckGen %s: model-level check %s failed: the acknowledgement model and the definition disagree outside the catalogued '
                                      'deviations of the code - modelling error, not an alarm about pyx12\n%s'
                                      % (label, res.violated, json_short(un[:2]) if un else res.out[-1500:]))
        chk.add_tlc(res, 'AckGen ' + label)
        for d in res.payloads.get('MODELDIFF', []):
            for f in d['f5' if prop == 'C05' else 'f6']:
                key = ' / '.join(x for x in f if x != '')
                diffs[key] = diffs.get(key, 0) + 1
        ss = sorted(res.payloads.get('SCN', []), key=lambda x: json.dumps(x['evs'], sort_keys=True))     # TLC prints in worker order
        if not ss:
            raise vlib.MachineryError('AckGen %s emitted no scenario' % label)
        ver = '5010' if 'Ver = "5010"' in cfg else '4010'
        cap = (60 if tier == 'quick' else 450)
        byclass = {}
        for s in ss:
            byclass.setdefault((tuple(sorted(s['f5'])), tuple(sorted(s['f6']))), []).append(s)
        pick = []
        for k in sorted(byclass):
            pick += byclass[k][:2]
        rest = [s for s in ss if s not in pick] if len(ss) < 5000 else ss
        rnd.shuffle(rest)
        pick += rest[:max(0, cap - len(pick))]
        for i, s in enumerate(pick):
            scns.append((label, ver, s))
    chk.extra['model_level_differences'] = dict(sorted(diffs.items()))
    return scns


def json_short(x):
    import json
    return json.dumps(x)[:1500]


def _run_batch(args):
    base, chunk = args
    out = []
    for i, d in enumerate(chunk):
        try:
            out.append(run_doc(base + i, d[1], label=d[0], faults=d[2]))
        except Exception as e:
            out.append({'id': base + i, 'label': d[0], 'skip': 'harness:' + type(e).__name__ + ':' + str(e)[:100]})
    return out


def _validate_batch(args):
    import shutil
    prop, chunk = args
    d = vlib.scratch('tack')
    try:
        p = os.path.join(d, 'traces.json')
        vlib.write_json(p, [{k: r[k] for k in KEEP} for r in chunk])
        res = vlib.run_tlc('T_Ack', 'SPECIFICATION Spec\nINVARIANT Report\n', env={'TRACE_FILE': p, 'PROP': prop}, workers=1, timeout=1500, heap='3g',
                           tag='T_Ack')
        if res.error:
            raise vlib.MachineryError('T_Ack: ' + res.error)
        rep = res.payloads.get('REJECTS')
        if not rep:
            raise vlib.MachineryError('T_Ack printed no report\n' + res.out[-1500:])
        return {'distinct': res.distinct, 'generated': res.generated, 'depth': res.depth, 'wall': res.wall, 'rej': rep[-1]['rej'],
                'drift': rep[-1]['drift'], 'stats': rep[-1]['stats']}
    finally:
        shutil.rmtree(d, ignore_errors=True)


def signature(prop, rec, clause, d1, d2, d3):
    sig = {'clause': clause}
    if d1 == 'truncated':
        sig.update({'ack_text': 'truncated', 'cause': d2, 'ack': '999' if rec['ver'] == '5010' else '997'})
        return sig
    for key, v in zip(SIGKEYS.get(clause, (None, None, None)), (d1, d2, d3)):
        if key:
            sig[key] = v
    sig['ack'] = '999' if rec['ver'] == '5010' else '997'
    return sig


def describe(rec, sig):
    reps = [(c['op'].replace('_error', ''), c['code'], c['si']) for c in rec['calls'] if c['op'].endswith('_error')][:6]
    ack = ' '.join(s['id'] + '*' + '*'.join(':'.join(x) for x in s['e']) for s in rec['ack'] if s['id'] not in ('ISA',))[:260]
    return ('x12n_document on %s: clause %s fails %s; verdict=%s, reported (level, code, input segment)=%s, tree error count=%s; acknowledgement: %s'
            % (rec['label'], sig['clause'], {k: v for k, v in sig.items() if k != 'clause'}, rec['verdict'], reps, rec['errcount'], ack))


def validate_records(chk, prop, recs, label):
    if not recs:
        return
    n = max(40, min(400, len(recs) // vlib.NCPU + 1))
    batches = [(prop, b) for b in vlib.chunked(recs, n)]
    results = vlib.parallel_map(_validate_batch, batches)
    byid = {r['id']: r for r in recs}
    tot = vlib.TlcResult()
    judged = 0
    for r in results:
        tot.distinct += r['distinct']; tot.generated += r['generated']; tot.wall = max(tot.wall, r['wall']); tot.depth = max(tot.depth, r['depth'])
        judged += r['stats']['judged']
        for rid, clause, d1, d2, d3 in r['rej']:
            rec = byid[rid]
            sig = signature(prop, rec, clause, d1, d2, d3)
            chk.violation(sig, describe(rec, sig), {'kind': 'document', 'label': rec['label'], 'text': rec['text'], 'clause': clause, 'signature': sig})
        for rid, what in r['drift']:
            chk.extra.setdefault('spec_drift', [])
            if len(chk.extra['spec_drift']) < 12:
                chk.extra['spec_drift'].append({'source': label, 'document': byid[rid]['label'], 'differs': what})
            chk.extra['spec_drift_count'] = chk.extra.get('spec_drift_count', 0) + 1
    chk.add_tlc(tot, 'T_Ack ' + label)
    chk.add_traces(judged)
    chk.extra['validation_incomplete_no_claim'] = chk.extra.get('validation_incomplete_no_claim', 0) + (len(recs) - judged)
    chk.add_eval(sum(len(r['calls']) for r in recs))


def run_check(prop, tier, replay=None):
    import json
    import random
    if replay:
        obj = json.load(open(replay))['replay']
        rec = run_doc(1, obj['text'], label=obj.get('label', 'replay'))
        rec['text'] = obj['text']
        res = _validate_batch((prop, [rec]))
        print('document :', obj.get('label'))
        print('verdict  :', rec.get('verdict'), ' tree error count:', rec.get('errcount'), ' exception:', rec.get('exc') or '-')
        print('reported :', [(c['op'], c['code'], c['si']) for c in rec.get('calls', []) if c['op'].endswith('_error')][:12])
        print('ack      :', rec.get('acktext', '').replace('\n', '')[:1200])
        print('reread   :', rec.get('reread'), ' revalidation:', rec.get('reval'))
        print('clauses failing now (spec/T_Ack.tla):', [[x[1]] + [y for y in x[2:] if y != ''] for x in res['rej']])
        print('recorded clause:', obj.get('clause'), obj.get('signature'))
        return 0
    chk = vlib.Check(prop, tier)
    rnd = random.Random(vlib.seed() * 1000003 + (5 if prop == 'C05' else 6))
    chk.rule = ('one case per validated document (input text); non-trivial = the document drew at least one reported error or has more than one '
                'transaction set')
    scns = run_models(chk, prop, tier, rnd)
    docs = []
    nreal = 0
    for label, ver, s in scns:
        text = scenario_to_doc(s, rnd, ver)
        if text is None:
            continue
        docs.append(('S:' + label + ':' + ' '.join(e['k'] + ('/' + e['var'] if e['var'] not in ('ok', 'clean') else '') for e in s['evs']), text, ['scenario'],
                     s))
    corpus = inputs(tier, vlib.seed())
    docs += [(a, b, c, None) for a, b, c in corpus]
    batches = [(1 + i, docs[i:i + 40]) for i in range(0, len(docs), 40)]
    recs = [r for b in vlib.parallel_map(_run_batch, batches) for r in b]
    for r, d in zip(recs, docs):
        r['text'] = d[1]
        r['scn'] = d[3]
    harness = [r for r in recs if str(r.get('skip', '')).startswith('harness')]
    if harness:
        raise vlib.MachineryError('harness failure on %s: %s' % (harness[0]['label'], harness[0]['skip']))
    good = [r for r in recs if 'skip' not in r]
    chk.extra['not_x12_skipped'] = len(recs) - len(good)
    validate_records(chk, prop, good, 'corpus')
    # how many generated scenarios drew exactly the reported errors the generator model predicted (evidence only)
    same = tot = 0
    for r in good:
        if r.get('scn'):
            tot += 1
            real = [[c['op'], c['code']] for c in r['calls'] if c['op'].endswith('_error')]
            if real == r['scn']['reps']:
                same += 1
    chk.extra['scenarios_replayed'] = tot
    chk.extra['scenarios_reported_errors_exactly_as_modelled'] = same
    nontriv = 0
    for r in good:
        nerr = sum(1 for c in r['calls'] if c['op'].endswith('_error'))
        nset = sum(1 for h in r['hist'] if h['k'] == 'ST')
        if nerr or nset > 1:
            chk.note_distinct(r['text'])
            nontriv += 1
    chk.extra['all_violation_signatures'] = sorted(set(json.dumps(v[0], sort_keys=True) for v in chk.violations))[:120]
    chk.extra['acknowledgements_written'] = sum(1 for r in good if r['written'])
    chk.extra['by_version'] = {v: sum(1 for r in good if r['ver'] == v) for v in ('4010', '5010')}
    for r in good[:1] + [x for x in good if x['label'].startswith('A:')][:2] + [x for x in good if x['label'].startswith('B:2x')][:2]:
        chk.sample({'document': r['label'], 'verdict': r['verdict'], 'reported': [(c['op'], c['code'], c['si']) for c in r['calls'] if c['op'].endswith('_error')][:8],
                    'acknowledgement': r['acktext'].replace('\n', '')[:500], 'reread_errors': r['reread'], 'revalidation': r['reval']})
    chk.assumptions = [
        'an error is "reported" when one of isa_error/gs_error/st_error/seg_error/ele_error is called on the error handler; it is "inside" a set (group) when '
        'it is reported while a segment from its ST (GS) to its SE (GE) - or the end of input for a loop still open - is being processed',
        'a set or group that lost its trailer and drew no error inside may carry any acceptance code; its declared count is not checked',
        'a missing segment (code 3) may be itemised at the position of the segment at which it was noticed or of the one before; SEG1 (no standard code) and '
        'AK5/AK9 note codes (AK502.., AK905..) are not checked; the sender is taken from any received ISA/GS (the code uses the last ones)',
        'clauses naming groups/sets are only claimed for inputs where every header and trailer finds its enclosing loop open (a missing trailer is implied '
        'by the next header); inputs on which validation raises (e.g. non-numeric GE01) carry no claim here (C07)',
        'echoed values "fit" unless the re-validation itself reports an element error at an echo position of the acknowledgement',
        'handler call logs are compressed: of a run of add_seg/add_ele calls only the last add_ele, the add_seg before it and the last add_seg are kept']
    return chk.finish()
