"""C11 - X12Writer always emits balanced envelopes with correct counts.

spec -> code : TLC explores WriterGen (all well-nested write histories within bounds, every state a Close
               point; model-level: implementation-shaped writer = WriterDef, content preserved, reader model
               accepts, recount clean) and emits every history; each is turned into Segment objects parsed
               under one of several SOURCE delimiter sets (the document the segments came from: element
               separator ^, sub-element separator equal to the writer's repetition separator, control
               characters, ...), written through the real X12Writer under one of several writer settings and
               closed.  Short histories additionally run under the complete source x writer matrix, which
               covers every coincidence "writer delimiter of role Y = source delimiter of role X".
code -> spec : each execution (per-Write appended segments, final stream, re-read with the real X12Reader, the
               writer setting, the source delimiters and every ISA of the output as observed), plus repository
               fixtures piped reader->writer and seeded random deep histories, is validated by TLC against
               T_Writer (Writer!IsaFault decides whether an ISA carries the writer's own delimiters).
"""
import zlib
import io
import json
import os
import random
import shutil
import sys

sys.path.insert(0, os.path.dirname(os.path.abspath(__file__)))
import vlib
from vlib import run_tlc, Check
import c04

sys.path.insert(0, vlib.REPO)
import pyx12.x12file
import pyx12.segment

# (seg_term, ele_term, subele_term, eol, repetition_term)
SETTINGS = [('~', '*', ':', '\n', '^'), ('~', '*', '\\', '\n', '^'), ('+', '&', '!', '', '%'), ('|', '^', '>', '\r\n', '~'), ('\n', '*', ':', '', '^'),
            ('\x1c', '\x1d', '\x1f', '', '\x1e')]
# source delimiter sets (seg_term, ele_term, subele_term, repetition_term) of the document the written Segment objects were parsed from
SOURCES = [('~', '*', ':', '^'), ('~', '^', ':', '|'), ('~', '|', '^', '*'), ('\x1c', '\x1d', '\x1f', '\x1e'), ('\n', '>', '*', '~'),
           ('^', ':', '~', '\\'), ('!', '%', '+', '&')]
DEFAULT_SRC = SOURCES[0]
# complete matrix; consecutive indexes vary the writer setting fastest
COMBOS = [(src, setting) for src in SOURCES for setting in SETTINGS]
ENVC = c04.KINDMAP


def combo(i):
    return COMBOS[i % len(COMBOS)]


def coincidences():
    """which (writer role = source role) coincidences the matrix contains"""
    got = set()
    for src, (st, et, ct, eol, rt) in COMBOS:
        for wn, wc in (('seg', st), ('ele', et), ('subele', ct), ('rep', rt)):
            for sn, sc in zip(('seg', 'ele', 'subele', 'rep'), src):
                if wc == sc:
                    got.add('writer %s = source %s' % (wn, sn))
    return got


def src_text(s, src=DEFAULT_SRC):
    """input segment text in the source delimiters"""
    ss, se, sc, sr = src
    k = s['k']
    if k == 'ISA':
        ver = s['n'] or '00401'
        return se.join(['ISA', '00', ' ' * 10, '00', ' ' * 10, 'ZZ', 'SENDER'.ljust(15), 'ZZ', 'RECEIVER'.ljust(15), '200101', '1200',
                        sr if ver == '00501' else 'U', ver, s['id'].rjust(9, '0'), '0', 'P', sc]) + ss
    if k == 'B':
        return se.join(['SV1', sc.join(['HC', '99213', 'A1']), '40.5', '', 'UN', '1']) + ss
    el = c04.seg_elems(s)
    while len(el) > 1 and el[-1] == '':
        el.pop()
    return se.join(el) + ss


def codes(x):
    return [ord(c) for c in x]


def split_out(text, setting):
    st, et, ct, eol, rt = setting
    segs = []
    for piece in text.split(st):
        piece = piece.lstrip('\r\n')
        if piece == '':
            continue
        segs.append(piece)
    return segs


def abstract_out(piece, setting):
    st, et, ct, eol, rt = setting
    el = piece.split(et)
    sid = el[0]
    k = ENVC.get(sid, 'B')
    def g(i):
        return el[i] if len(el) > i else ''
    if k == 'ISA':
        return {'k': k, 'id': g(13).lstrip('0') or g(13), 'cnt': '', 'n': g(12), 'p': ''}
    if k in ('GS',):
        return {'k': k, 'id': g(6).lstrip('0') or g(6), 'cnt': '', 'n': '', 'p': ''}
    if k == 'ST':
        return {'k': k, 'id': g(2).lstrip('0') or g(2), 'cnt': '', 'n': '', 'p': ''}
    if k in ('SE', 'GE', 'IEA'):
        return {'k': k, 'id': g(2).lstrip('0') or g(2), 'cnt': g(1), 'n': '', 'p': ''}
    return {'k': 'B', 'id': '', 'cnt': '', 'n': '', 'p': ''}


def canon(seg):
    """canonical comparison form of a Segment (values only; ISA11/ISA16 masked)"""
    if seg.get_seg_id() == 'ISA':
        vals = [seg.get_value('ISA%02d' % i) for i in range(1, 17)]
        vals[10] = vals[15] = '#'
        return 'ISA|' + '|'.join(v if v is not None else '' for v in vals)
    # structure-preserving: written with separators no data and no delimiter set uses, so that a composite and a simple value that merely
    # CONTAINS a separator character of another delimiter set never look alike
    return seg.format('\x01', '\x02', '\x03')


def run_writer(tid, hist, setting, segs=None, src=DEFAULT_SRC):
    st, et, ct, eol, rt = setting
    ss, se, sc, sr = src
    fd = io.StringIO()
    tr = {'id': tid, 'hist': hist, 'steps': [], 'final': [], 'same': True, 'reread': [], 'isas': [], 'exc': '', 'setting': list(setting), 'source': list(src),
          'w': {'st': ord(st), 'et': ord(et), 'ct': ord(ct), 'rt': ord(rt)}, 'src': {'seg': ord(ss), 'ele': ord(se), 'sub': ord(sc), 'rep': ord(sr)}}
    try:
        w = pyx12.x12file.X12Writer(fd, st, et, ct, eol, rt)
        inputs = []
        pos = 0
        for i, s in enumerate(hist):
            seg = segs[i] if segs is not None else pyx12.segment.Segment(src_text(s, src), ss, se, sc)
            if s['k'] not in ('SE', 'GE', 'IEA'):
                inputs.append(canon(seg))
            w.Write(seg)
            text = fd.getvalue()
            new = split_out(text[pos:], setting)
            pos = len(text)
            tr['steps'].append([abstract_out(p, setting) for p in new])
        w.Close()
    except Exception as e:
        tr['exc'] = type(e).__name__
        return tr
    text = fd.getvalue()
    pieces = split_out(text, setting)
    tr['final'] = [abstract_out(p, setting) for p in pieces]
    # content: non-trailer output segments, re-parsed with the writer's delimiters, equal the inputs in order
    outs = []
    for p in pieces:
        sid = p.split(et)[0]
        if sid in ('SE', 'GE', 'IEA'):
            continue
        seg = pyx12.segment.Segment(p, st, et, ct)
        outs.append(canon(seg))
        if sid == 'ISA' or p[:3] == 'ISA':
            # the ISA as it stands in the text (projection only; Writer!IsaFault judges it)
            el = p.split(et)
            tr['isas'].append({'et': ord(p[3]) if len(p) > 3 else 0, 'nel': len(el), 'e11': codes(el[11]) if len(el) > 11 else [],
                               'e16': codes(el[16]) if len(el) > 16 else [], 'ver': el[12] if len(el) > 12 else ''})
    tr['same'] = outs == inputs
    # the text must use the writer's terminator and eol after every segment
    if eol and pieces:
        tr['same'] = tr['same'] and text.endswith(st + eol) and text.count(st + eol) == len(pieces)
    # re-read with the real reader
    if pieces:
        try:
            rd = pyx12.x12file.X12Reader(io.StringIO(text))
            errs = []
            for seg in rd:
                errs += rd.pop_errors()
            rd.cleanup()
            errs += rd.pop_errors()
            tr['reread'] = [[e[0], e[1]] for e in errs if e[0] in ('isa', 'gs', 'st') or e[1] in ('HL1', 'HL2', 'LX')]
        except Exception as e:
            tr['reread'] = [['exc', type(e).__name__]]
    return tr


def _run_batch(args):
    base, hists = args
    out = []
    for j, h in enumerate(hists):
        tid = base + j
        src, setting = combo(zlib.crc32(json.dumps(h, sort_keys=True).encode()) + vlib.seed())
        out.append(run_writer(tid, h, setting, src=src))
    return out


def _run_matrix(args):
    base, hists = args
    out = []
    for j, h in enumerate(hists):
        for c, (src, setting) in enumerate(COMBOS):
            out.append(run_writer(base + j * len(COMBOS) + c, h, setting, src=src))
    return out


def _run_job(job):
    return job[0](job[1])


def _validate_batch(traces):
    d = vlib.scratch('c11tv')
    try:
        p = os.path.join(d, 'traces.json')
        vlib.write_json(p, [{k: v for k, v in t.items() if k not in ('setting', 'source', 'label')} for t in traces])
        res = run_tlc('T_Writer', 'SPECIFICATION Spec\nINVARIANT Report\n', env={'TRACE_FILE': p}, workers=1, timeout=1500, heap='3g')
        if res.error:
            raise vlib.MachineryError('T_Writer: ' + res.error)
        rep = res.payloads.get('REJECTS')
        if not rep:
            raise vlib.MachineryError('T_Writer printed no report\n' + res.out[-1500:])
        return {'distinct': res.distinct, 'generated': res.generated, 'depth': res.depth, 'wall': res.wall, 'rej': rep[-1]['rej'], 'drift': rep[-1]['drift']}
    finally:
        shutil.rmtree(d, ignore_errors=True)


def shape(h):
    return ' '.join(s['k'] + ((':' + s['id']) if s['id'] else '') + (('/' + s['cnt']) if s['cnt'] else '') for s in h)


def validate(chk, traces, label):
    if not traces:
        return
    batches = list(vlib.chunked(traces, max(200, min(3000, len(traces) // vlib.NCPU + 1))))
    results = vlib.parallel_map(_validate_batch, batches)
    byid = {t['id']: t for t in traces}
    tot = vlib.TlcResult()
    for r in results:
        tot.distinct += r['distinct']; tot.generated += r['generated']; tot.wall = max(tot.wall, r['wall']); tot.depth = max(tot.depth, r['depth'])
        for tid, clause, coin in r['rej']:
            tr = byid[tid]
            sig = {'clause': clause, 'history': shape(tr['hist'])}
            if clause.startswith('isa_delims:'):
                # the spec names the faulty field, the version of that ISA and how the writer's delimiters coincide with the source's
                clause, field, ver = clause.split(':')
                sig = {'clause': clause, 'field': field, 'version': ver}
                sig.update(coin)
            chk.violation(sig, 'segments parsed with (seg, ele, subele, rep) = %r written by X12Writer%r, [%s] then Close: clause %s; stream = [%s], ISAs as written %s, '
                          're-read errors %s, exc %s'
                          % (tuple(tr['source']), tuple(tr['setting']), shape(tr['hist']), sig, shape(tr['final']),
                             [dict(i, e11=''.join(map(chr, i['e11'])), e16=''.join(map(chr, i['e16'])), et=chr(i['et'])) for i in tr['isas'][:2]], tr['reread'], tr['exc']),
                          {'kind': 'writer', 'history': tr['hist'], 'setting': tr['setting'], 'source': tr['source'], 'clause': clause})
        for d in r['drift'][:3]:
            chk.extra.setdefault('spec_drift', [])
            if len(chk.extra['spec_drift']) < 10:
                chk.extra['spec_drift'].append({'source': byid[d[0]].get('label') or label, 'history': shape(byid[d[0]]['hist']), 'step': d[1]})
    chk.add_tlc(tot, 'T_Writer ' + label)
    chk.add_traces(len(traces))
    chk.add_eval(sum(len(t['hist']) + 1 for t in traces))
    last = {}
    for t in traces:
        lab = t.get('label') or label       # several sources may share one round of TLC batches
        chk.note_distinct(lab + shape(t['hist']) + str(t['setting']) + str(t['source']))
        last[lab] = t
    for lab, t in last.items():
        chk.sample({'source': lab, 'writes': shape(t['hist']), 'segments_parsed_with': t['source'], 'writer_setting': t['setting'], 'stream_after_close': shape(t['final'])})


def fixture_segments(segs, src):
    """the fixture's segments as parsed from the same document written in the delimiters src"""
    ss, se, sc, sr = src
    out = []
    for s in segs:
        if s.get_seg_id() == 'ISA':
            vals = [s.get_value('ISA%02d' % i) or '' for i in range(1, 17)]
            if vals[11] == '00501':
                vals[10] = sr
            vals[15] = sc
            out.append(pyx12.segment.Segment(se.join(['ISA'] + vals) + ss, ss, se, sc))
        else:
            out.append(pyx12.segment.Segment(s.format(ss, se, sc), ss, se, sc))
    return out


def fixture_chars(segs):
    """characters of the data values (ISA11 / ISA16 are delimiters, not data)"""
    used = set()
    for s in segs:
        if s.get_seg_id() == 'ISA':
            used.update(''.join(s.get_value('ISA%02d' % i) or '' for i in range(1, 17) if i not in (11, 16)))
        else:
            used.update(s.format('\x00', '\x01', '\x02').replace('\x00', '').replace('\x01', '').replace('\x02', ''))
    return used


def fixtures_traces(base):
    out = []
    skipped = 0
    for fi, (k, src_doc) in enumerate(c04.fixtures()):
        try:
            rd = pyx12.x12file.X12Reader(io.StringIO(src_doc))
            segs = [s for s in rd]
        except Exception:
            continue
        hist = []
        for s in segs:
            a = c04.abstract(s)
            if a['k'] == 'ISA':
                a['n'] = s.get_value('ISA12')
            a['id'] = a['id'].lstrip('0') or a['id']
            if a['k'] in ('HL', 'CLM', 'LX'):
                a = {'k': 'B', 'id': '', 'cnt': '', 'n': '', 'p': ''}
            hist.append(a)
        used = fixture_chars(segs)
        # the default writer over the standard source, then two rotating (source, writer) combinations
        for j, (src, setting) in enumerate([(DEFAULT_SRC, SETTINGS[1]), combo(fi * 11 + 7), combo(fi * 11 + 20)]):
            if used & (set(src[:3]) | set(setting[:3])):
                skipped += 1        # the data contains a delimiter: outside the property
                continue
            base += 1
            # fresh Segment objects per run (Write mutates the ISA)
            out.append(run_writer(base, hist, setting, segs=fixture_segments(segs, src), src=src))
    return out, skipped


def random_hists(rnd, n, maxlen):
    """seeded random well-nested histories, longer than the exhaustive bound"""
    out = []
    for _ in range(n):
        h = []
        depth = 0
        ids = ['1', '2', '3']
        for _ in range(rnd.randint(6, maxlen)):
            opts = ['B'] if depth >= 1 else []
            if depth == 0:
                opts += ['ISA'] * 3
            if depth == 1:
                opts += ['GS'] * 3 + ['IEA']
            if depth == 2:
                opts += ['ST'] * 3 + ['GE', 'IEA']
            if depth >= 3:
                opts += ['B'] * 3 + ['SE'] * 2 + ['GE', 'IEA']
            k = rnd.choice(opts)
            s = {'k': k, 'id': '', 'cnt': '', 'n': '', 'p': ''}
            if k in ('ISA', 'GS', 'ST', 'SE', 'GE', 'IEA'):
                s['id'] = rnd.choice(ids)
            if k in ('SE', 'GE', 'IEA'):
                s['cnt'] = rnd.choice(['', '1', '2', '9', 'X'])
            if k == 'ISA':
                s['n'] = rnd.choice(['00401', '00501'])
            depth = {'ISA': 1, 'GS': 2, 'ST': 3, 'SE': 2, 'GE': 1, 'IEA': 0}.get(k, depth)
            h.append(s)
        out.append(h)
    return out


def run(tier, replay=None):
    if replay:
        obj = json.load(open(replay))['replay']
        src = tuple(obj.get('source') or DEFAULT_SRC)
        tr = run_writer(0, obj['history'], tuple(obj['setting']), src=src)
        print('writes  :', shape(obj['history']), 'segments parsed with (seg, ele, subele, rep)', repr(src), 'writer setting', obj['setting'])
        print('stream  :', shape(tr['final']), 'same', tr['same'], 'reread', tr['reread'], 'exc', tr['exc'])
        print('ISAs    :', [dict(i, e11=''.join(map(chr, i['e11'])), e16=''.join(map(chr, i['e16'])), et=chr(i['et'])) for i in tr['isas']],
              '(expected: e16 = writer sub-element separator, e11 = writer repetition separator when ver = 00501, 17 fields)')
        print('recorded clause:', obj.get('clause'))
        return 0
    chk = Check('C11', tier)
    chk.rule = ('one case per distinct (write history, source delimiter set of the segments, writer delimiter setting), closed at its end; '
                'every prefix of a history is itself a case')
    co = coincidences()
    if len(co) != 16:
        raise vlib.MachineryError('delimiter matrix does not cover every writer-role = source-role coincidence: %s' % sorted(co))
    chk.extra['delimiter_matrix'] = {'sources': len(SOURCES), 'writer_settings': len(SETTINGS), 'coincidences_covered': sorted(co)}
    q = tier == 'quick'
    tid = 0
    for label, maxlen, vers in (('wn-4010', 6 if q else 7, ['00401']), ('wn-both', 5 if q else 6, ['00401', '00501'])):
        cfg = ('SPECIFICATION Spec\nCONSTANTS MaxLen = %d\n Ids = {"1","2"}\n Versions = {%s}\n EmitAll = TRUE\n'
               'INVARIANT ImplIsDef\nINVARIANT ContentPreserved\nINVARIANT ReaderAccepts\nINVARIANT RecountClean\nINVARIANT GenWellNested\nINVARIANT Emit\n'
               % (maxlen, ','.join('"%s"' % v for v in vers)))
        res = run_tlc('WriterGen', cfg, timeout=2400)
        if res.error:
            raise vlib.MachineryError('WriterGen %s: %s' % (label, res.error))
        if res.violated:
            raise vlib.MachineryError('WriterGen %s: model-level theorem %s violated (modelling error)\n%s' % (label, res.violated, res.out[-1500:]))
        chk.add_tlc(res, 'WriterGen ' + label)
        hists = res.payloads.get('HIST', [])
        if not hists:
            raise vlib.MachineryError('WriterGen emitted nothing')
        batch_args = [(tid + i, b) for i, b in zip(range(0, len(hists), 500), vlib.chunked(hists, 500))]
        tid += len(hists)
        if len(vers) > 1:
            # complete source x writer matrix on the short histories (both versions) and a deterministic sample of the longest ones;
            # replayed in the same pool and validated in the same TLC batches as the rotated runs
            ordered = sorted(hists, key=lambda h: (len(h), json.dumps(h, sort_keys=True)))
            short = [h for h in ordered if len(h) <= (2 if q else 3)]
            longer = [h for h in ordered if len(h) == maxlen]
            short += longer[::max(1, len(longer) // (8 if q else 60))][:8 if q else 60]
            per = max(1, len(short) // vlib.NCPU + 1)
            jobs = [(_run_matrix, (tid + i * len(COMBOS), b)) for i, b in zip(range(0, len(short), per), vlib.chunked(short, per))]
            tid += len(short) * len(COMBOS)
            chk.extra['delimiter_matrix']['histories'] = len(short)
            label += ' + delimiter-matrix'
        else:
            jobs = []
        jobs += [(_run_batch, a) for a in batch_args]
        traces = [t for r in vlib.parallel_map(_run_job, jobs) for t in r]
        validate(chk, traces, label)
    rnd = random.Random(vlib.seed() + 11)
    hs = random_hists(rnd, 400 if q else 6000, 18 if q else 40)
    traces = [t for r in vlib.parallel_map(_run_batch, [(tid + i, b) for i, b in zip(range(0, len(hs), 500), vlib.chunked(hs, 500))]) for t in r]
    tid += len(hs)
    ftr, skipped = fixtures_traces(tid)
    chk.extra['fixture_runs_skipped_data_contains_delimiter'] = skipped
    for t in traces:
        t['label'] = 'random-deep'
    for t in ftr:
        t['label'] = 'fixtures reader->writer'
    chk.extra['traces_by_source'] = {'random-deep': len(traces), 'fixtures reader->writer': len(ftr)}
    validate(chk, traces + ftr, 'random-deep + fixtures reader->writer')
    chk.assumptions = ['well-nested = a header only directly inside its enclosing level, a trailer only while its level is open (inner levels may be open)',
                       'reuse of a control number supplied by the caller is copied, so reader errors 025/6/23 on the output are not attributed to the writer',
                       'the 837 LX renumbering option of the writer is off (default)',
                       'the four delimiters of a writer setting are pairwise distinct, likewise of a source document; no data value contains a source or writer delimiter '
                       '(the ISA11 and ISA16 of the source ISA are delimiters, not data); source and writer delimiters may coincide in any roles']
    return chk.finish()


if __name__ == '__main__':
    vlib.main_wrapper(run)
