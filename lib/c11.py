"""C11 - X12Writer always emits balanced envelopes with correct counts.

spec -> code : TLC explores WriterGen (all well-nested write histories within bounds, every state a Close
               point; model-level: implementation-shaped writer = WriterDef, content preserved, reader model
               accepts, recount clean) and emits every history; each is written through the real X12Writer
               under several delimiter settings and closed.
code -> spec : each execution (per-Write appended segments, final stream, re-read with the real X12Reader, ISA
               delimiters), plus repository fixtures piped reader->writer and seeded random deep histories,
               is validated by TLC against T_Writer.
"""
import io
import json
import os
import random
import shutil
import sys

sys.path.insert(0, os.path.dirname(os.path.abspath(__file__)))
import vlib
from vlib import run_tlc, Check
import c04

sys.path.insert(0, vlib.REPO)
import pyx12.x12file
import pyx12.segment

# (seg_term, ele_term, subele_term, eol, repetition_term)
SETTINGS = [('~', '*', ':', '\n', '^'), ('~', '*', '\\', '\n', '^'), ('+', '&', '!', '', '%'), ('|', '^', '>', '\r\n', '~'), ('\n', '*', ':', '', '^')]
ENVC = c04.KINDMAP


def src_text(s):
    """input segment text in the source delimiters ~ * :"""
    k = s['k']
    if k == 'ISA':
        ver = s['n'] or '00401'
        return '*'.join(['ISA', '00', ' ' * 10, '00', ' ' * 10, 'ZZ', 'SENDER'.ljust(15), 'ZZ', 'RECEIVER'.ljust(15), '200101', '1200',
                         '^' if ver == '00501' else 'U', ver, s['id'].rjust(9, '0'), '0', 'P', ':']) + '~'
    if k == 'B':
        return 'SV1*HC:99213:A1*40.5**UN*1~'
    el = c04.seg_elems(s)
    while len(el) > 1 and el[-1] == '':
        el.pop()
    return '*'.join(el) + '~'


def split_out(text, setting):
    st, et, ct, eol, rt = setting
    segs = []
    for piece in text.split(st):
        piece = piece.lstrip('\r\n')
        if piece == '':
            continue
        segs.append(piece)
    return segs


def abstract_out(piece, setting):
    st, et, ct, eol, rt = setting
    el = piece.split(et)
    sid = el[0]
    k = ENVC.get(sid, 'B')
    def g(i):
        return el[i] if len(el) > i else ''
    if k == 'ISA':
        return {'k': k, 'id': g(13).lstrip('0') or g(13), 'cnt': '', 'n': g(12), 'p': ''}
    if k in ('GS',):
        return {'k': k, 'id': g(6).lstrip('0') or g(6), 'cnt': '', 'n': '', 'p': ''}
    if k == 'ST':
        return {'k': k, 'id': g(2).lstrip('0') or g(2), 'cnt': '', 'n': '', 'p': ''}
    if k in ('SE', 'GE', 'IEA'):
        return {'k': k, 'id': g(2).lstrip('0') or g(2), 'cnt': g(1), 'n': '', 'p': ''}
    return {'k': 'B', 'id': '', 'cnt': '', 'n': '', 'p': ''}


def canon(seg):
    """canonical comparison form of a Segment (values only; ISA11/ISA16 masked)"""
    if seg.get_seg_id() == 'ISA':
        vals = [seg.get_value('ISA%02d' % i) for i in range(1, 17)]
        vals[10] = vals[15] = '#'
        return 'ISA|' + '|'.join(v if v is not None else '' for v in vals)
    return seg.format('~', '*', ':')


def run_writer(tid, hist, setting, segs=None, real_ids=False):
    st, et, ct, eol, rt = setting
    fd = io.StringIO()
    tr = {'id': tid, 'hist': hist, 'steps': [], 'final': [], 'same': True, 'reread': [], 'isa_ok': True, 'exc': '', 'setting': list(setting)}
    try:
        w = pyx12.x12file.X12Writer(fd, st, et, ct, eol, rt)
        inputs = []
        pos = 0
        for i, s in enumerate(hist):
            seg = segs[i] if segs is not None else pyx12.segment.Segment(src_text(s), '~', '*', ':')
            if s['k'] not in ('SE', 'GE', 'IEA'):
                inputs.append(canon(seg))
            w.Write(seg)
            text = fd.getvalue()
            new = split_out(text[pos:], setting)
            pos = len(text)
            tr['steps'].append([abstract_out(p, setting) for p in new])
        w.Close()
    except Exception as e:
        tr['exc'] = type(e).__name__
        return tr
    text = fd.getvalue()
    pieces = split_out(text, setting)
    tr['final'] = [abstract_out(p, setting) for p in pieces]
    if real_ids:
        for a, p in zip(tr['final'], pieces):
            pass
    # content: non-trailer output segments, re-parsed with the writer's delimiters, equal the inputs in order
    outs = []
    for p in pieces:
        sid = p.split(et)[0]
        if sid in ('SE', 'GE', 'IEA'):
            continue
        seg = pyx12.segment.Segment(p, st, et, ct)
        outs.append(canon(seg))
        if sid == 'ISA':
            el = p.split(et)
            ok = len(el) == 17 and el[16] == ct and (el[12] != '00501' or el[11] == rt)
            tr['isa_ok'] = tr['isa_ok'] and ok
    tr['same'] = outs == inputs
    # the text must use the writer's terminator and eol after every segment
    if eol and pieces:
        tr['same'] = tr['same'] and text.endswith(st + eol) and text.count(st + eol) == len(pieces)
    # re-read with the real reader
    if pieces:
        try:
            rd = pyx12.x12file.X12Reader(io.StringIO(text))
            errs = []
            for seg in rd:
                errs += rd.pop_errors()
            rd.cleanup()
            errs += rd.pop_errors()
            tr['reread'] = [[e[0], e[1]] for e in errs if e[0] in ('isa', 'gs', 'st') or e[1] in ('HL1', 'HL2', 'LX')]
        except Exception as e:
            tr['reread'] = [['exc', type(e).__name__]]
    return tr


def _run_batch(args):
    base, hists = args
    out = []
    for j, h in enumerate(hists):
        tid = base + j
        out.append(run_writer(tid, h, SETTINGS[tid % len(SETTINGS)]))
    return out


def _validate_batch(traces):
    d = vlib.scratch('c11tv')
    try:
        p = os.path.join(d, 'traces.json')
        vlib.write_json(p, [{k: v for k, v in t.items() if k != 'setting'} for t in traces])
        res = run_tlc('T_Writer', 'SPECIFICATION Spec\nINVARIANT Report\n', env={'TRACE_FILE': p}, workers=1, timeout=1500, heap='3g')
        if res.error:
            raise vlib.MachineryError('T_Writer: ' + res.error)
        rep = res.payloads.get('REJECTS')
        if not rep:
            raise vlib.MachineryError('T_Writer printed no report\n' + res.out[-1500:])
        return {'distinct': res.distinct, 'generated': res.generated, 'depth': res.depth, 'wall': res.wall, 'rej': rep[-1]['rej'], 'drift': rep[-1]['drift']}
    finally:
        shutil.rmtree(d, ignore_errors=True)


def shape(h):
    return ' '.join(s['k'] + ((':' + s['id']) if s['id'] else '') + (('/' + s['cnt']) if s['cnt'] else '') for s in h)


def validate(chk, traces, label):
    if not traces:
        return
    batches = list(vlib.chunked(traces, max(200, min(3000, len(traces) // vlib.NCPU + 1))))
    results = vlib.parallel_map(_validate_batch, batches)
    byid = {t['id']: t for t in traces}
    tot = vlib.TlcResult()
    for r in results:
        tot.distinct += r['distinct']; tot.generated += r['generated']; tot.wall = max(tot.wall, r['wall']); tot.depth = max(tot.depth, r['depth'])
        for tid, clause in r['rej']:
            tr = byid[tid]
            sig = {'clause': clause, 'history': shape(tr['hist'])}
            if clause == 'isa_delims':
                sig = {'clause': clause, 'version': [s['n'] for s in tr['hist'] if s['k'] == 'ISA'][:1], 'subele_is_default': tr['setting'][2] == ':'}
            chk.violation(sig, 'X12Writer%s on [%s] then Close: clause %s; stream = [%s], re-read errors %s, exc %s'
                          % (tuple(tr['setting']), shape(tr['hist']), clause, shape(tr['final']), tr['reread'], tr['exc']),
                          {'kind': 'writer', 'history': tr['hist'], 'setting': tr['setting'], 'clause': clause})
        for d in r['drift'][:3]:
            chk.extra.setdefault('spec_drift', [])
            if len(chk.extra['spec_drift']) < 10:
                chk.extra['spec_drift'].append({'source': label, 'history': shape(byid[d[0]]['hist']), 'step': d[1]})
    chk.add_tlc(tot, 'T_Writer ' + label)
    chk.add_traces(len(traces))
    chk.add_eval(sum(len(t['hist']) + 1 for t in traces))
    for t in traces:
        chk.note_distinct(label + shape(t['hist']) + str(t['setting']))
    chk.sample({'source': label, 'writes': shape(traces[-1]['hist']), 'writer_setting': traces[-1]['setting'], 'stream_after_close': shape(traces[-1]['final'])})


def fixtures_traces(base):
    out = []
    for k, src in c04.fixtures():
        try:
            rd = pyx12.x12file.X12Reader(io.StringIO(src))
            segs = [s for s in rd]
        except Exception:
            continue
        hist = []
        for s in segs:
            a = c04.abstract(s)
            if a['k'] == 'ISA':
                a['n'] = s.get_value('ISA12')
            a['id'] = a['id'].lstrip('0') or a['id']
            if a['k'] in ('HL', 'CLM', 'LX'):
                a = {'k': 'B', 'id': '', 'cnt': '', 'n': '', 'p': ''}
            hist.append(a)
        for j, setting in enumerate(SETTINGS[:3]):
            base += 1
            # fresh Segment objects per run (Write mutates the ISA)
            segs2 = [pyx12.segment.Segment(s.format('~', '*', ':'), '~', '*', ':') for s in segs]
            out.append(run_writer(base, hist, setting, segs=segs2))
    return out


def random_hists(rnd, n, maxlen):
    """seeded random well-nested histories, longer than the exhaustive bound"""
    out = []
    for _ in range(n):
        h = []
        depth = 0
        ids = ['1', '2', '3']
        for _ in range(rnd.randint(6, maxlen)):
            opts = ['B'] if depth >= 1 else []
            if depth == 0:
                opts += ['ISA'] * 3
            if depth == 1:
                opts += ['GS'] * 3 + ['IEA']
            if depth == 2:
                opts += ['ST'] * 3 + ['GE', 'IEA']
            if depth >= 3:
                opts += ['B'] * 3 + ['SE'] * 2 + ['GE', 'IEA']
            k = rnd.choice(opts)
            s = {'k': k, 'id': '', 'cnt': '', 'n': '', 'p': ''}
            if k in ('ISA', 'GS', 'ST', 'SE', 'GE', 'IEA'):
                s['id'] = rnd.choice(ids)
            if k in ('SE', 'GE', 'IEA'):
                s['cnt'] = rnd.choice(['', '1', '2', '9', 'X'])
            if k == 'ISA':
                s['n'] = rnd.choice(['00401', '00501'])
            depth = {'ISA': 1, 'GS': 2, 'ST': 3, 'SE': 2, 'GE': 1, 'IEA': 0}.get(k, depth)
            h.append(s)
        out.append(h)
    return out


def run(tier, replay=None):
    if replay:
        obj = json.load(open(replay))['replay']
        tr = run_writer(0, obj['history'], tuple(obj['setting']))
        print('writes  :', shape(obj['history']), 'setting', obj['setting'])
        print('stream  :', shape(tr['final']), 'same', tr['same'], 'isa_ok', tr['isa_ok'], 'reread', tr['reread'], 'exc', tr['exc'])
        print('recorded clause:', obj.get('clause'))
        return 0
    chk = Check('C11', tier)
    chk.rule = 'one case per distinct (write history, writer delimiter setting), closed at its end; every prefix of a history is itself a case'
    q = tier == 'quick'
    tid = 0
    for label, maxlen, vers in (('wn-4010', 6 if q else 7, ['00401']), ('wn-both', 5 if q else 6, ['00401', '00501'])):
        cfg = ('SPECIFICATION Spec\nCONSTANTS MaxLen = %d\n Ids = {"1","2"}\n Versions = {%s}\n EmitAll = TRUE\n'
               'INVARIANT ImplIsDef\nINVARIANT ContentPreserved\nINVARIANT ReaderAccepts\nINVARIANT RecountClean\nINVARIANT GenWellNested\nINVARIANT Emit\n'
               % (maxlen, ','.join('"%s"' % v for v in vers)))
        res = run_tlc('WriterGen', cfg, timeout=2400)
        if res.error:
            raise vlib.MachineryError('WriterGen %s: %s' % (label, res.error))
        if res.violated:
            raise vlib.MachineryError('WriterGen %s: model-level theorem %s violated (modelling error)\n%s' % (label, res.violated, res.out[-1500:]))
        chk.add_tlc(res, 'WriterGen ' + label)
        hists = res.payloads.get('HIST', [])
        if not hists:
            raise vlib.MachineryError('WriterGen emitted nothing')
        traces = [t for r in vlib.parallel_map(_run_batch, [(tid + i, b) for i, b in zip(range(0, len(hists), 1000), vlib.chunked(hists, 1000))]) for t in r]
        tid += len(hists)
        validate(chk, traces, label)
    rnd = random.Random(vlib.seed() + 11)
    hs = random_hists(rnd, 400 if q else 6000, 18 if q else 40)
    traces = [t for r in vlib.parallel_map(_run_batch, [(tid + i, b) for i, b in zip(range(0, len(hs), 500), vlib.chunked(hs, 500))]) for t in r]
    tid += len(hs)
    validate(chk, traces, 'random-deep')
    validate(chk, fixtures_traces(tid), 'fixtures reader->writer')
    chk.assumptions = ['well-nested = a header only directly inside its enclosing level, a trailer only while its level is open (inner levels may be open)',
                       'reuse of a control number supplied by the caller is copied, so reader errors 025/6/23 on the output are not attributed to the writer',
                       'the 837 LX renumbering option of the writer is off (default)']
    return chk.finish()


if __name__ == '__main__':
    vlib.main_wrapper(run)
