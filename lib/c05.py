"""C05 - verdict, reported errors and acknowledgement always agree.

spec -> code : TLC explores spec/AckGen.tla (an x12n_document-shaped environment feeding the reader model, the error tree model
               ErrTree and the visitor models Ack997 / Ack999; the definition layer AckDef judges every finished input) and emits
               scenarios; each is realised as a real document (fixture sets + injected faults) and validated by the real code.
code -> spec : every execution (those documents, a fault-injection corpus over the repository fixtures - element, segment and envelope
               faults, multi-set / multi-group / multi-interchange, 4010 and 5010, other delimiters - and the fixtures themselves) is
               recorded by lib/ackcommon.py and validated by TLC against spec/T_Ack.tla: AckDef clauses decide violations, the
               replay of the logged handler calls through ErrTree + Ack997/Ack999 reports drift.
"""
import os
import sys

sys.path.insert(0, os.path.dirname(os.path.abspath(__file__)))
import vlib
import ackcommon


def inputs(tier, seed):
    return ackcommon.inputs(tier, seed)


def run(tier, replay=None):
    return ackcommon.run_check('C05', tier, replay)


if __name__ == '__main__':
    vlib.main_wrapper(run)
