"""C15 helper: drives the real element_if / composite_if / segment_if of pyx12 and projects what they did.

Nothing here decides right or wrong: a call is reduced to (result, reported error codes, exception name) and stored
under the key (definition signature, value, setting); the TLA+ definition judges the records afterwards.
"""
import os
import random
import re
import sys

sys.path.insert(0, os.path.dirname(os.path.abspath(__file__)))
import vlib
import c15_defs as defs
import c15_values as values

sys.path.insert(0, vlib.REPO)
import pyx12.error_handler
import pyx12.map_if
import pyx12.params
import pyx12.segment


# ------------------------------------------------------------------ one observation of the real code
def _comp_of(refdes):
    m = re.search(r'-(\d+)$', str(refdes)) if refdes is not None else None
    return int(m.group(1)) if m else 0


def observe(node, data, tl=None, only_refdes=None, with_comp=False):
    """-> (res, codes, exception name, codes reported for other reference designators[, (code, component) pairs])"""
    errh = pyx12.error_handler.errh_list()
    try:
        r = node.is_valid(data, errh) if tl is None else node.is_valid(data, errh, list(tl))
    except Exception as e:
        return ('exc', tuple(str(x[0]) for x in errh.err_ele), type(e).__name__, ()) + (((),) if with_comp else ())
    res = 'true' if r is True else ('false' if r is False else 'exc')
    exc = '' if res != 'exc' else 'non-boolean result %r' % (r,)
    if with_comp:
        return (res, tuple(str(x[0]) for x in errh.err_ele), exc, (), tuple((str(x[0]), _comp_of(x[3])) for x in errh.err_ele))
    if only_refdes is None:
        return (res, tuple(str(x[0]) for x in errh.err_ele), exc, ())
    mine = tuple(str(x[0]) for x in errh.err_ele if x[3] == only_refdes)
    other = tuple(str(x[0]) for x in errh.err_ele if x[3] != only_refdes)
    return (res, mine, exc, other)


def element_data(v, form='E'):
    if v is None:
        return None
    if form == 'C':      # what Segment.get() hands over: a composite holding one simple element
        c = pyx12.segment.Composite('', ':')
        c.elements = [pyx12.segment.Element(v)]
        return c
    return pyx12.segment.Element(v)


def composite_data(vals):
    if vals is None:
        return None
    c = pyx12.segment.Composite('', ':')
    c.elements = [pyx12.segment.Element(v) for v in vals]
    return c


def load(fname, excl, map_path=None):
    param = pyx12.params.params()
    if excl:
        param.set('exclude_external_codes', excl)
    return pyx12.map_if.load_map_file(fname, param, map_path), param


def locate(m, ipath, seg_id):
    node = m
    for pos, k in ipath:
        node = node.pos_map[pos][k]
    if node.id != seg_id:
        raise vlib.MachineryError('node pairing failed: %s is not segment %s' % (node.id, seg_id))
    return node


def pair_children(fname, node, s):
    """the child nodes of a loaded segment node, checked against our own reading of the XML"""
    if len(node.children) != len(s['children']):
        raise vlib.MachineryError('node pairing failed: %s %s has %d children, the XML %d'
                                  % (fname, s['seg'], len(node.children), len(s['children'])))
    for ci, (kind, d, xid) in enumerate(s['children']):
        ch = node.children[ci]
        if (ch.id or '') != xid or ch.is_composite() != (kind == 'composite'):
            raise vlib.MachineryError('node pairing failed: %s %s child %d' % (fname, s['seg'], ci))
        if kind == 'composite':
            if len(ch.children) != len(d['kids']):
                raise vlib.MachineryError('node pairing failed: composite %s %s' % (fname, xid))
            for ki, kd in enumerate(d['kids']):
                if kd is not None and ch.children[ki].id != kd['xid']:
                    raise vlib.MachineryError('node pairing failed: component %s %s' % (fname, kd['xid']))
    return node.children


def members_of(tabs, d):
    return tabs.codesets.get(d['ext'], set()) if d is not None and d['hasExt'] else set()


def fact_of(d, members, v, rec=None):
    """the two outside facts about a value: member of the external set (codes.xml), pattern matches (Python re)"""
    if rec is None and d['regex']:
        rec = re.compile(d['regex'], re.S)
    return (v in members, bool(rec.search(v)) if rec is not None else False)


# ------------------------------------------------------------------ composite / segment inputs
def composite_cases(cd, tabs):
    kids = cd['kids']
    n = len(kids)
    good = [values.good_value(k, members_of(tabs, k)) for k in kids]
    some = [g or values.shaped(k['dtype'], max(k['min'], 1)) for g, k in zip(good, kids)]
    cases = [None, [''], [''] * n, list(good), list(some)]
    for i in range(n):
        k = kids[i]
        only = [''] * n
        only[i] = some[i]
        cases.append(only)
        for repl in ('', values.shaped(k['dtype'], k['max'] + 1), 'Q' * max(k['min'], 1), some[i][:-1] + '\n', some[i] + ' ',
                     values.shaped(k['dtype'], k['min'] - 1), some[i]):
            c = list(good)
            c[i] = repl
            cases.append(c)
        if i >= 1:
            cases.append(list(good[:i]))            # shorter: the components from i on are not supplied at all
            c = list(good[:i])
            c[0] = ''
            cases.append(c)
    if n >= 2:
        c = list(some)
        c[0] = ''
        cases.append(c)                             # first component empty, every other one present
        c = [''] * n
        c[n - 1] = some[n - 1]
        cases.append(c)
    cases.append(list(good) + ['X'])
    cases.append(list(good) + ['', 'X'])
    cases.append([''] * n + ['X'])
    out, seen = [], set()
    for c in cases:
        key = None if c is None else tuple(c)
        if key not in seen:
            seen.add(key)
            out.append(c)
    return out


def seg_text(seg_id, children, tabs, filled, overrides):
    parts = []
    for i, (kind, d, xid) in enumerate(children):
        if i in overrides:
            parts.append(overrides[i])
        elif d is None:
            parts.append('')
        elif kind == 'element':
            parts.append(values.good_value(d, members_of(tabs, d)) if (d['usage'] == 'R' or (filled and d['usage'] == 'S')) else '')
        else:
            vs = []
            if d['complete'] and (d['usage'] == 'R' or (filled and d['usage'] == 'S')):
                vs = [values.good_value(k, members_of(tabs, k)) if k['usage'] == 'R' else '' for k in d['kids']]
                while vs and vs[-1] == '':
                    vs.pop()
            parts.append(':'.join(vs))
    while parts and parts[-1] == '':
        parts.pop()
    return seg_id + ''.join('*' + p for p in parts) + '~'


def qualified_targets(children):
    """[(index of the 1251 element, index of the nearest preceding 1250 element)]"""
    out = []
    for j, (kind, d, xid) in enumerate(children):
        if kind != 'element' or d is None or d['num'] != '1251':
            continue
        qi = [i for i in range(j) if children[i][0] == 'element' and children[i][1] is not None and children[i][1]['num'] == '1250']
        if qi:
            out.append((j, qi[-1]))
    return out


def clean_fill(node, s, tabs, j, qi, q):
    """which way of filling the other elements makes the whole segment valid (None: neither)"""
    for f in (False, True):
        text = seg_text(s['seg'], s['children'], tabs, f, {qi: q, j: values.QUAL_GOOD[q]})
        out = observe(node, pyx12.segment.Segment(text, '~', '*', ':'), only_refdes=s['children'][j][2])
        if out[0] == 'true' and not out[1] and not out[3]:
            return f
    return None


# ------------------------------------------------------------------ the recorder
class Prepared(object):
    """catalogue of one element definition with the two outside facts per value"""
    def __init__(self, d, tabs, tier, rnd):
        self.d = d
        self.members = members_of(tabs, d)
        self.rec = re.compile(d['regex'], re.S) if d['regex'] else None
        self.vals = values.catalogue(d, self.members, tier, rnd)
        self.is_1251 = d['num'] == '1251'


class Recorder(object):
    def __init__(self, fname, tabs, tier, seed, want_e, want_c):
        self.fname = fname
        self.tabs = tabs
        self.tier = tier
        self.seed = seed
        self.want_e = want_e
        self.want_c = want_c
        self.prep = {}
        self.sigid = {}      # definition signature -> small integer (keys stay cheap to hash)
        self.sigs = []
        self.sigdef = []
        self.erecs = {}      # (sig id, value, isComp, cs, excl, tl, qual) -> {outcome: origin}
        self.crecs = {}      # (sig id, values, cs, excl flags) -> {outcome: origin}
        self.ncalls = 0
        self.skipped = {'undefined_data_element': 0, 'undefined_external_set': 0, 'segment_not_clean': 0, 'incomplete_composite': 0}
        self.nodes = {'element': 0, 'composite': 0, 'qualified_segment': 0}
        self.qvals = values.qualified_values(tier == 'quick')

    def sid(self, sig, d):
        i = self.sigid.get(sig)
        if i is None:
            i = self.sigid[sig] = len(self.sigs)
            self.sigs.append(sig)
            self.sigdef.append(d)
        return i

    def prepared(self, sig, d):
        p = self.prep.get(sig)
        if p is None:
            p = self.prep[sig] = Prepared(d, self.tabs, self.tier, random.Random('%s/%r' % (self.seed, sig)))
        return p

    @staticmethod
    def put(store, key, out, origin):
        slot = store.get(key)
        if slot is None:
            store[key] = {out: origin}
        elif out not in slot:
            slot[out] = origin

    def usable(self, d, count):
        """definitions with a dangling reference (data element / external set not defined) are not this property's business"""
        if d is None:
            if count:
                self.skipped['undefined_data_element'] += 1
            return False
        if d['hasExt'] and d['ext'] not in self.tabs.codesets:
            if count:
                self.skipped['undefined_external_set'] += 1
            return False
        return True

    # -- direct calls of element_if.is_valid
    def run_element(self, node, d, cs, excl_set, li, where):
        sig = defs.elem_sig(d)
        if self.want_e is not None and sig not in self.want_e:
            return
        p = self.prepared(sig, d)
        k = self.sid(sig, d)
        excl = d['hasExt'] and d['ext'] in excl_set
        forms = ('E', 'C') if li == 0 else ('E',)
        erecs, put = self.erecs, self.put
        n = 0
        for v in p.vals:
            for form in forms:
                out = observe(node, element_data(v, form))
                n += 1
                put(erecs, (k, v, False, cs, excl, (), ''), out[:3], ('elem', self.fname, li) + where + (form,))
        if not d['inComp']:
            # nothing supplied / empty value: only where no composite context is needed to say whether a value is due
            for v, form in ((None, 'E'), ('', 'E'), ('', 'C')):
                out = observe(node, element_data(v, form))
                n += 1
                put(erecs, (k, v, False, cs, excl, (), ''), out[:3], ('elem', self.fname, li) + where + (form,))
            # a composite value where a simple element is defined
            out = observe(node, composite_data(['A', 'B']))
            n += 1
            put(erecs, (k, 'A:B', True, cs, excl, (), ''), out[:3], ('elem', self.fname, li) + where + ('E',))
        if p.is_1251 and li == 0:
            for tl in values.TYPE_LISTS:
                for v in self.qvals:
                    out = observe(node, element_data(v, 'E'), tl=tl)
                    n += 1
                    put(erecs, (k, v, False, cs, excl, tuple(tl), ''), out[:3], ('elem', self.fname, li) + where + ('E',))
        self.ncalls += n

    # -- composite_if.is_valid
    def run_composite(self, node, cd, cs, excl_set, li, where):
        sig = defs.comp_sig(cd)
        if self.want_c is not None and sig not in self.want_c:
            return
        k = self.sid(sig, cd)
        excl = tuple(kd['hasExt'] and kd['ext'] in excl_set for kd in cd['kids'])
        for c in composite_cases(cd, self.tabs):
            out = observe(node, composite_data(c), with_comp=True)
            self.ncalls += 1
            self.put(self.crecs, (k, None if c is None else tuple(c), cs, excl), out[:3] + (out[4],), ('comp', self.fname, li) + where)

    # -- segment_if.is_valid: the format selected by a preceding qualifier
    def run_qualified(self, node, s, cs, si):
        children = s['children']
        for j, qi in qualified_targets(children):
            d, xid = children[j][1], children[j][2]
            sig = defs.elem_sig(d)
            if self.want_e is not None and sig not in self.want_e:
                continue
            k = self.sid(sig, d)
            if cs == 'B':
                self.nodes['qualified_segment'] += 1
            for q in [c for c in children[qi][1]['codes'] if c in values.QUAL_GOOD]:
                filled = clean_fill(node, s, self.tabs, j, qi, q)
                self.ncalls += 1
                if filled is None:
                    self.skipped['segment_not_clean'] += 1
                    continue
                for v in self.qvals:
                    if any(x in v for x in '*:~'):
                        continue
                    text = seg_text(s['seg'], children, self.tabs, filled, {qi: q, j: v})
                    seg = pyx12.segment.Segment(text, '~', '*', ':')
                    if len(seg) <= j or seg.get_value('%02d' % (j + 1)) != v:
                        continue
                    out = observe(node, seg, only_refdes=xid)
                    self.ncalls += 1
                    if out[3]:
                        self.skipped['segment_not_clean'] += 1
                        continue
                    self.put(self.erecs, (k, v, False, cs, False, (), q), out[:3], ('seg', self.fname, 0, si, j, qi, filled))


def record_task(arg):
    """run the nodes of segments lo..hi-1 of one map under every exclusion setting of the plan and both character sets"""
    fname, lo, hi, tier, plan, seed, want_e, want_c, repo_map_dir = arg
    tabs = defs.Tables(repo_map_dir)
    segs, icvn = defs.read_map(os.path.join(repo_map_dir, fname), tabs)
    rec = Recorder(fname, tabs, tier, seed, want_e, want_c)
    for li, excl in enumerate(plan):
        try:
            m, param = load(fname, excl)
        except Exception as e:
            return {'map': fname, 'loaded': False, 'why': '%s: %s' % (type(e).__name__, str(e)[:100])}
        excl_set = set(excl.split(',')) if excl else set()
        for cs in ('B', 'E'):
            param.set('charset', cs)
            for si in range(lo, min(hi, len(segs))):
                s = segs[si]
                node = locate(m, s['ipath'], s['seg'])
                kids = pair_children(fname, node, s)
                first = li == 0 and cs == 'B'
                for ci, (kind, d, xid) in enumerate(s['children']):
                    ch = kids[ci]
                    if kind == 'element':
                        if first:
                            rec.nodes['element'] += 1
                        if rec.usable(d, first) and (li == 0 or d['hasExt']):
                            rec.run_element(ch, d, cs, excl_set, li, (si, ci, -1))
                    else:
                        if first:
                            rec.nodes['composite'] += 1
                            rec.nodes['element'] += len(d['kids'])
                            if not d['complete']:
                                rec.skipped['incomplete_composite'] += 1
                        for ki, kd in enumerate(d['kids']):
                            if rec.usable(kd, first) and (li == 0 or kd['hasExt']):
                                rec.run_element(ch.children[ki], kd, cs, excl_set, li, (si, ci, ki))
                        if all(rec.usable(k, False) for k in d['kids']) and (li == 0 or any(k['hasExt'] for k in d['kids'])):
                            rec.run_composite(ch, d, cs, excl_set, li, (si, ci))
                if li == 0:
                    rec.run_qualified(node, s, cs, si)
    return {'map': fname, 'loaded': True, 'icvn': icvn, 'nsegs': len(segs), 'sigs': rec.sigs, 'sigdef': rec.sigdef,
            'erecs': rec.erecs, 'crecs': rec.crecs, 'ncalls': rec.ncalls, 'skipped': rec.skipped, 'nodes': rec.nodes}
