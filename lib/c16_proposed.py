"""C16 - material for the maintainer of known_findings.json (not imported by the check).

PROPOSED_FINDINGS : entries for /verif/known_findings.json that cover every violation the quick and thorough tiers report
                    on the unchanged tree (checked with VERIF_EXTRA_FINDINGS: exit 0, 18 KNOWN-FINDING lines).
CANDIDATE_PATCH   : a minimal repair of the three CODE defects among them (repository suite: 454 passed).  With it applied
                    the entries marked  "fixed_by_patch": True  are no longer needed (checked on a scratch copy: exit 0 with
                    the other 15 entries only).  The remaining entries are defects of the map DATA (or need a design decision:
                    999 CTX qualifier with a blank) - repairing them needs the X12 dictionaries / implementation guides.
"""

PROPOSED_FINDINGS = [
    {'property': 'C16', 'kind': 'finding', 'signature': {'clause': 'map_loads', 'map': '841.4010.XXXC.xml'}, 'description': '841.4010.XXXC.xml is named by maps.xml but load_map_file raises EngineError (data elements 1401, 790, 791, 792, 795, 796 are not in dataele.xml)'},
    {'property': 'C16', 'kind': 'finding', 'signature': {'clause': 'map_loads_dir', 'map': '841.4010.XXXC.xml'}, 'description': '841.4010.XXXC.xml does not load from an explicit map directory either (same undefined data elements)'},
    {'property': 'C16', 'kind': 'finding', 'signature': {'clause': 'data_ele', 'map': '841.4010.XXXC.xml'}, 'description': '841.4010.XXXC.xml: 12 elements refer to data elements 1401, 790, 791, 792, 795, 796 that dataele.xml does not define'},
    {'property': 'C16', 'kind': 'finding', 'signature': {'clause': 'distinguishable', 'map': '841.4010.XXXC.xml', 'seg': 'RDT'}, 'description': '841.4010.XXXC.xml loop 1000: two RDT segments at one position without any qualifier code list'},
    {'property': 'C16', 'kind': 'finding', 'signature': {'clause': 'addressable', 'map': '841.4010.XXXC.xml', 'seg': 'RDT'}, 'description': '841.4010.XXXC.xml loop 1000: the second RDT segment cannot be addressed by any path (same id, same position, no qualifier)'},
    {'property': 'C16', 'kind': 'finding', 'signature': {'clause': 'data_ele', 'map': '830.4010.PS.xml'}, 'description': '830.4010.PS.xml: BFR10 and CTT02 refer to data elements 367 and 347 that dataele.xml does not define'},
    {'property': 'C16', 'kind': 'finding', 'signature': {'clause': 'syntax', 'map': '830.4010.PS.xml'}, 'description': '830.4010.PS.xml: six syntax notes (UIT C0302, FST P0607 P0809, SHP L030405, REF R0203, CTT P0304) name element positions beyond the elements the segment node has'},
    {'property': 'C16', 'kind': 'finding', 'signature': {'clause': 'data_ele', 'map': '837.4010.X097.A1.xml', 'xid': 'PRV05', 'data_ele': 'C035'}, 'description': '837.4010.X097.A1.xml (837D): element PRV05 names the composite C035 as its data element; dataele.xml has no such element'},
    {'property': 'C16', 'kind': 'finding', 'signature': {'clause': 'distinguishable', 'loop': '2010AA', 'seg': 'REF', 'shared': 'LU'}, 'description': '837 4010 (X096, X097, X098) loop 2010AA: the two REF segments at one position both accept qualifier LU'},
    {'property': 'C16', 'kind': 'finding', 'signature': {'clause': 'distinguishable', 'map': '837.5010.X222.A1.xml', 'seg': 'PWK', 'shared': 'CT'}, 'description': '837.5010.X222.A1.xml loop 2400: both PWK segments at position 4200 accept qualifier CT'},
    {'property': 'C16', 'kind': 'finding', 'signature': {'clause': 'addressable', 'map': '837.5010.X222.A1.xml', 'seg': 'PWK'}, 'description': '837.5010.X222.A1.xml loop 2400: the second PWK (only code CT) cannot be addressed: PWK[CT] resolves to the first PWK, which lists CT too'},
    {'property': 'C16', 'kind': 'finding', 'signature': {'map': '837.5010.X222.A1.xml', 'seg': 'PWK', 'why': 'overlapping_qualifier'}, 'description': '837.5010.X222.A1.xml loop 2400: the second PWK reports the path .../2400/PWK[CT]; getnodebypath and getnodebypath2 return the first PWK for it (consequence of the overlapping qualifier CT)'},
    {'property': 'C16', 'kind': 'finding', 'signature': {'clause': 'inline_code', 'xid': 'CLM05-03', 'code': 'Z '}, 'description': '837.4010.X096.A1.xml (837I): CLM05-03 lists the code "Z " (trailing blank), longer than its data element 1325 (ID 1/1) allows'},
    {'property': 'C16', 'kind': 'finding', 'signature': {'clause': 'addressable', 'seg': 'CTX'}, 'description': '999 maps loop 2100: the two CTX segments at one position differ only in CTX01-1 (SITUATIONAL TRIGGER), a value with a blank that the path grammar cannot carry as qualifier'},
    {'property': 'C16', 'kind': 'finding', 'signature': {'seg': 'CTX', 'why': 'qualifier_not_in_segment_path'}, 'description': '999 maps loop 2100: both CTX segment nodes report the same path .../2100/CTX (guess_unique_key_id_element ignores the AN-typed CTX01-1 that is_match uses); lookups return the first one'},
    {'property': 'C16', 'kind': 'finding', 'signature': {'why': 'qualifier_not_in_element_path'}, 'description': "element_if.get_path leaves out the qualifier of its segment: elements and components of the 2nd.. of several same-id segments (REF[..], DTP[..], HI[..], NM1 ...) report the path of the first one's elements - paths not unique, getnodebypath2 returns another node or None", 'fixed_by_patch': True},
    {'property': 'C16', 'kind': 'finding', 'signature': {'clause': 'fetch2', 'why': 'segment_of_top_level_loop'}, 'description': 'map_if.getnodebypath2 ignores the segment part when the path has one loop: /ISA_LOOP/ISA, /ISA_LOOP/IEA01 ... return the loop ISA_LOOP', 'fixed_by_patch': True},
    {'property': 'C16', 'kind': 'finding', 'signature': {'clause': 'fetch2', 'why': 'loop_named_like_segment'}, 'description': '997.4010.xml: getnodebypath2 cannot fetch the loops AK2 and AK2/AK3 by their own path (the last component is read as a segment id) and raises EngineError', 'fixed_by_patch': True}
]

CANDIDATE_PATCH = r'''diff --git a/pyx12/map_if.py b/pyx12/map_if.py
index f72241d..5be5d77 100644
--- a/pyx12/map_if.py
+++ b/pyx12/map_if.py
@@ -327,7 +327,7 @@ class map_if(x12_node):
         for ord1 in sorted(self.pos_map):
             for child in self.pos_map[ord1]:
                 if child.id.upper() == x12path.loop_list[0]:
-                    if len(x12path.loop_list) == 1:
+                    if len(x12path.loop_list) == 1 and x12path.seg_id is None:
                         return child
                     else:
                         del x12path.loop_list[0]
@@ -546,6 +546,12 @@ class loop_if(x12_node):
                         else:
                             del x12path.loop_list[0]
                             return child.getnodebypath2(x12path.format())
+                elif child.is_loop() and len(x12path.loop_list) == 0 and x12path.seg_id is not None \
+                        and x12path.id_val is None and x12path.ele_idx is None \
+                        and child.id.upper() == x12path.seg_id.upper() \
+                        and not any(c.is_segment() and c.id == x12path.seg_id for c in self.childIterator()):
+                    # the last loop id might look like a segment id (997: AK2, AK3)
+                    return child
                 elif child.is_segment() and len(x12path.loop_list) == 0 and x12path.seg_id is not None:
                     if x12path.id_val is None:
                         if x12path.seg_id == child.id:
@@ -1378,9 +1384,13 @@ class element_if(x12_node):
         if self._fullpath:
             return self._fullpath
         #get enclosing loop
-        parent_path = self.get_parent_segment().parent.get_path()
-        # add the segment, element, and sub-element path
-        self._fullpath = parent_path + '/' + self.id
+        seg_node = self.get_parent_segment()
+        parent_path = seg_node.parent.get_path()
+        # add the segment (with its qualifier, if its path carries one), element, and sub-element path
+        if seg_node.path != seg_node.id and self.id.startswith(seg_node.id):
+            self._fullpath = parent_path + '/' + seg_node.path + self.id[len(seg_node.id):]
+        else:
+            self._fullpath = parent_path + '/' + self.id
         return self._fullpath
 
     def get_parent_segment(self):
'''
