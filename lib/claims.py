"""What MANIFEST.json claims per property (bin/mkmanifest turns this into MANIFEST.json)."""
HOOK_COMMITS = []
NOTES = ('Every check: TLC explores the TLA+ model (spec/), behaviours it emits are replayed into the real code, and recorded '
         'executions of the real code are trace-validated by TLC. A VIOLATION is only printed for a concrete execution of the real '
         'code that the specification rejects; model-only failures exit 2 (machinery). known_findings.json lists recorded defects.')
NOT_CLAIMED = {}
CLAIMS = {
 'C05': {
  'text': 'For every validated document the verdict is true exactly when no error was reported; the 997/999 is addressed back to the sender, names every group '
          'and set in order with its own control number, marks a set or group A exactly when nothing was reported inside it, gives declared / received / '
          'accepted totals equal to a recount and itemises every reported standard-coded segment or element error at its segment position, element position '
          'and value. All of this is the TLA+ definition spec/AckDef.tla, judged by TLC (T_Ack) on every real execution; TLC also model-checks the '
          'implementation-shaped error tree and visitors (ErrTree, AckVisit, Ack997, Ack999, driven by the AckGen environment over the Envelope reader model) '
          'against AckDef, and every scenario TLC emits is realised as a real document (997 and 999, multi-set/group/interchange, three delimiter sets).',
  'note': 'Corpus E puts element errors at two-digit positions of segments with a two-letter id (reference designators such as HI10-1, HD10). An error is "reported" when a *_error call is made on the handler, and "inside" by the input segment being processed. Errors reported at a segment '
          'that implicitly closes an unclosed loop decide nothing; unclosed loops without their own errors may carry any code. AK5/AK9 note codes and SEG1 are '
          'not checked. Group and set naming is only claimed when every header finds its enclosing loop open. An echoed value may differ from the offending '
          'value only at positions holding a separator of the acknowledgement itself (C06 forbids carrying it). Known finding: AK903 = 0 for a group that lost its GE '
          '(pinned by the repository fixture 837miss). A 140-character offending value (ele_LONG) must be itemised as received.',
  'technique': 'TLA+ model (ErrTree/Ack997/Ack999/AckGen) model-checked by TLC against the definition AckDef + TLC scenarios realised as real documents + '
               'TLC trace validation (T_Ack) of every recorded execution (definition clause = violation, implementation-shaped model mismatch = drift)',
 },
 'C06': {
  'text': 'Every 997/999 written is a complete ISA..IEA interchange whose SE/GE/IEA counts and control numbers are right by an independent recount (spec/Recount.tla '
          'reused through AckDef) with unique ST02; every line keeps its element and component structure despite echoed values (inputs using other delimiters, '
          'values containing ~ * : ^); the acknowledgement is re-read by the real X12Reader without any envelope error and, fed back to x12n_document, selects the '
          '997/999 map and is accepted unless the only complaints are element errors at echo positions. Decided by TLC (T_Ack) on every real execution; the '
          'visitor models Ack997/Ack999 are model-checked against the same clauses.',
  'note': 'Same scenario family as C05 (TLC-generated documents with 1-2 interchanges x 1-2 groups x 1-3 sets, envelope variants, stray and truncated trailers, '
          'echo classes TERM/ELE/SUB/REP, control numbers and segment identifiers holding a separator of the acknowledgement (st02_sep, gs06_sep, segid_sep), a set without ST02 (st02_absent), and a simple element carrying the component separator of the SOURCE - read as a composite and echoed with that separator). Dates, times and the random control numbers of the acknowledgement are only compared header-to-trailer. Source ISA11 equal to a separator of the acknowledgement (isa11_sep) and ST03 holding one (st03_sep) are part of the corpus.',
  'technique': 'TLA+ model (Ack997/Ack999 over ErrTree) model-checked by TLC against AckDef/Recount + TLC scenarios realised as real documents + real re-read and '
               're-validation of every acknowledgement + TLC trace validation (T_Ack)',
 },
 'C07': {
  'text': 'For every input text, every requested sink (997/999, HTML, XML; quick: each alone, thorough: all 16 sink x charset combinations) and both charsets, '
          'x12n_document returns a boolean; X12Reader iteration + pop_errors + cleanup and X12ContextReader.iter_segments (no loop id and loop ids) run to completion. '
          'The only exceptions are the documented refusal of non-interchanges (False / X12Error: no ISA prefix, shorter than 106 characters, unknown version, '
          'malformed ISA) and EngineError "Map not found" for groups without a transaction map; nothing else escapes and every call terminates (CPU-time guard). '
          'The input class and the allowed outcome set per class are the TLA+ definition spec/ValidateDef.tla; spec/Mutate.tla generates all single and seeded double '
          'structural mutations (16 kinds) of 5 fixture skeletons; TLC (T_Validate) recomputes the class of every input and judges every recorded outcome.',
  'note': 'Mutation kind cutsub removes or empties the last component of a composite; for in-segment mutations of the long skeletons both rendering sinks (HTML, XML) are run. Checked on all single and sampled double mutations of 5 fixtures (837P 4010, 834 5010, 835, 270, 278+837+835), on seeded arbitrary strings and ISA header edits, '
          'and on one minimal interchange per maps.xml entry; not a proof for all texts. Known finding: maps.xml lists 841.4010.XXXC.xml, which cannot be loaded '
          '(undefined data elements, see C16) and raises EngineError instead of a verdict.',
  'technique': 'TLA+ generator (Mutate: BFS + seeded simulation) -> concretised real documents -> real entry points under a time guard -> TLC trace validation '
               '(T_Validate) against the outcome set ValidateDef defines per input class',
 },
 'C17': {
  'text': 'TLC enumerates every path record of the bounded grammar (PathGen: <=2/3 loop ids over 9 ids x 4 segment ids x 3 qualifiers x 5 element x 4 component indexes) '
          'and every history of <=2/3 set() calls (SegOps) with the read-back/others-unchanged/exact-growth laws as action properties; every emitted behaviour is replayed '
          'into X12Path/Segment and compared field by field; node paths of the shipped maps and seeded random set/get histories are recorded from the real classes and '
          'trace-validated by TLC against the Parse/Print/Set/Get definitions (T_PathSeg).',
  'note': 'Every element is read at element level before and after every write (element_read), so state left behind by reads must not outlive a write. Bounded: loop-id alphabet of 9 representative ids, histories of <=3 calls exhaustively plus random histories of <=10 calls; trusted: TLC, the projection functions in lib/c17.py.',
  'technique': 'TLA+ model checking (TLC) + replay of TLC behaviours into the code + TLC trace validation of recorded executions',
 },
 'C04': {
  'text': 'TLC model-checks the implementation-shaped reader model (spec/Envelope.tla: _parse_segment of X12Base and X12Reader, cleanup) against the '
          'independent recount definition (spec/Recount.tla: nesting, control-number scope, counts, HL path, LX numbering) as invariants over all segment '
          'histories within bounds (full histories <=4/5, de-duplicated state graph to depth 6-15, focused HL/LX alphabets, random walks to depth 24/40); '
          'every emitted history is concretised under 4 delimiter/line-break settings and read by the real X12Reader, and every execution (plus the repository '
          'fixtures and concatenations of them) is trace-validated by TLC (T_Envelope): the Recount definition decides violations per segment and at cleanup, '
          'the Envelope transcription is compared state-by-state (counters, loop stack, error list) and reports drift.',
  'note': 'Control numbers range over 2-3 abstract values rendered into the document in three styles (equally padded numeric, alphanumeric, numerically equal but textually different header/trailer) and judged as the strings the reader parsed; a blank HL02 makes no claim; LX numbering is claimed only after a CLM of the same set '
          'with the caller-enabled 837 check; error classes are compared as (level, code) sets. Trusted: TLC, concretiser/projection in lib/c04.py. HL level and child codes (HL03/HL04: 0, 1, absent) are written in every form: they are no part of the numbering / parent claims.',
  'technique': 'TLA+ refinement check (TLC) of reader model vs recount definition + replay of TLC histories into X12Reader + TLC trace validation of recorded executions',
 },
 'C14': {
  'text': 'TLC enumerates SyntaxGen: all 5 note types x every ordered list of 2..4 distinct positions out of 1..5/1..6 x every segment of length 0..5/6 with every '
          'presence pattern (63k/324k cases), checking that the transcribed counting loops (SyntaxImpl) equal the X12 definition (Syntax.tla) and the relations '
          'between the five conditions; every case is replayed into a real segment_if and Segment (is_syntax_valid verdict, element error code 10 for E else 2 at a '
          'mentioned position, none when satisfied). For every syntax note of every segment of every loadable shipped map x every presence pattern x every segment '
          'length, is_syntax_valid and segment_if.is_valid(errh_list) are run and the log is trace-validated by TLC (T_Syntax); complete table in the thorough tier.',
  'note': 'The notes a segment is judged by are read from the map XML independently and compared with what the loaded node enforces (note_not_loaded); for segments with several errors the note errors are also reported through the error-tree handler and judged by the same clauses. Errors of other validations are separated by differencing against the same is_valid call with the notes switched off; error position only required to be '
          'one of the note positions; quick tier: 5-element generator space, distinct (note, element-count) signatures over all maps, segment_if.is_valid once per distinct signature on every map (a note reaching past the elements its segment defines, as in the 830, is a signature of its own) plus per-occurrence is_valid on 5 maps. '
          'Not covered: the unloadable 841 map, cases where is_valid raises regardless of notes. Trusted: TLC, projections in lib/c14.py.',
  'technique': 'TLA+ model checking (TLC) Impl=Def + replay of TLC cases into the code + TLC trace validation of the complete recorded table',
 },
 'C11': {
  'text': 'TLC checks on WriterGen, for every well-nested write history <=6/7 (trailers supplied with right/wrong/absent counts and ids, or omitted) and every prefix as a Close '
          'point, that the implementation-shaped writer model (X12Writer.Write/_popToLoop/_close_* over X12Base counters) equals the definition WriterDef (non-trailers in order, '
          'generated trailers with header control number and recount), that the reader model accepts the result and the recount is clean; every history is written through the '
          'real X12Writer: segments are parsed under 7 source delimiter sets and written under 6 writer settings (control characters included), both ISA versions; the full 42-combination '
          'matrix, covering all 16 writer-role = source-role coincidences, runs on the short histories; per-Write appended segments, the closed stream, its re-read by the real X12Reader and '
          'the ISA as observed in the output text (Writer!IsaFault decides whether it carries the writer\'s delimiters) are trace-validated by TLC (T_Writer), as are seeded random histories '
          'up to 18/40 writes and the repository fixtures piped reader->writer.',
  'note': 'Duplicate control numbers supplied by the caller are copied (reader errors 025/6/23 not attributed to the writer); LX renumbering option off; trusted: TLC, output splitter/projection in lib/c11.py. Written content is compared in a structure-preserving canonical form (separators no data uses), so a composite and a simple value that merely contains a separator character of another delimiter set never look alike.',
  'technique': 'TLA+ refinement check (TLC) writer model vs definition + replay of TLC histories into X12Writer + TLC trace validation',
 },
 'C01': {
  'text': 'TLC model-checks Tokenizer.tla: an environment writes every text <=5/6 over {terminator, element and component separator, CR, LF, blank, data} and then serves read() in '
          'every possible chunking (short reads up to buffer sizes 2 and 3, full reads with buffer 1 and 3); theorem: the buffer/refill/split loop of RawX12File plus the per-line '
          'normalisation of X12Reader yields exactly TokDef!Oracle(text) and every segment survives format + re-read in normal form. Every (text, schedule) is instantiated under 4 '
          'delimiter triples (incl. the binary one) and fed to the real X12Reader through a stream chunking exactly like the schedule (DEFAULT_BUFSIZE patched to the model buffer) and by path; '
          'real-size inputs (8 KiB buffer untouched): terminators swept over every alignment to the buffer boundary under none/LF/CRLF/CR, short-read streams, path sources, a 9 KB segment, '
          'blank/empty-piece normalisations. All executions are trace-validated by TLC against the TokDef definition (T_Tokenizer): segments element by component by character, blank-error '
          'count, trailing-separator flag, formatted text, re-read.',
  'note': 'Exhaustive part uses one data symbol; real-size runs use ASCII letters/digits; element-less segments: no claim on formatted text (suite documents AAA*~); a leading run of blanks and '
          'line breaks is dropped as a whole once it contains a blank. Trusted: TLC, the scheduled stream and projections in lib/c01.py.',
  'technique': 'TLA+ model checking (TLC) of the buffer state machine vs split oracle over all chunkings + replay into X12Reader with scheduled streams + TLC trace validation',
 },
 'C13': {
  'text': 'TLC enumerates DataTypesGen (all strings <=5/6 over {0,1,2,5,9,-,.,x,LF}, strings <=2/3 over 14 character-set boundary symbols, year-class x month 00..13 x day 00..32 dates with HHMM / '
          'hyphen+date extensions, hour x minute x second 00..60 x decimal shapes, up to 4 parts joined by 0..3 hyphens) and emits each value with the verdict vector of the definition layer '
          'DataTypes.tla (calendar/clock arithmetic, numeric shapes, explicit character sets); every value is replayed into the real IsValidDataType under 23 type identifiers x 4 (charset, icvn) '
          'settings, an exception being a divergence. Complete tables recorded from the real function (accepted days for every CCYYMM of the tier years - thorough: 0000..9999 -, every YYMMDD, '
          'every HHMM/HHMMS, HHMMSS and HHMMSSd(d) grids, every single character 0..255, boundary pairs, seeded mutations) are validated by TLC against the same definition (T_DataTypes).',
  'note': 'Free-form strings only up to length 5/6 over a 9-symbol alphabet, longer values through shaped generators, tables and seeded mutations; no verdict claimed for the empty ID/AN value, type B '
          'and unknown type ids (only never-raise); DT read as D6 | D8 | D8+HHMM; DataTypesImpl.tla (thorough) is a model-only cross-check. Trusted: TLC, JSON transport (length-checked), lib/c13.py.',
  'technique': 'TLA+ model checking (TLC) + replay of TLC-generated inputs into the code + TLC trace validation of complete recorded tables',
 },
 'C20': {
  'text': 'TLC checks on NormGen, for all properly nested histories (<=6..10 segments, three alphabets) whose only defects are wrong IEA/GE/SE counts or HL numbers, that the '
          'implementation-shaped fixing rule (reader model + rewrite by popped error code from the running counter) equals the definition NormDef (recount), that the repaired output has no '
          'count defect, that nothing else is altered and that fixing is idempotent; every emitted history is written to a file under 3 delimiter triples x none/LF/CRLF and normalised by the '
          'real pyx12.scripts.x12norm.main() under the option combinations of eol and count fixing, to stdout, -o file and in place, and a second time; output segments (element by element), '
          'layout (line break after each terminator when asked, final newline), equality of the three destinations and idempotence are trace-validated by TLC (T_Norm).',
  'note': 'Real-size inputs (16-25 KB) sweep a terminator / CR / LF across the 8 KiB read boundaries under every line-break convention. Inputs are generated envelope/HL skeletons with fixed representative values (no composites); count fixing is only specified for inputs whose only defects are counts; quick tier samples '
          '2000 histories per alphabet. Trusted: TLC, output splitter in lib/c20.py (splits on the declared terminator and separator only). In runs with several files the earlier file is written under another encoding than the later one (every other time with the line break itself as terminator).',
  'technique': 'TLA+ model checking (TLC) of the fixing rule vs recount definition + replay of TLC histories through x12norm.main() + TLC trace validation',
 },
 'C02': {
  'text': 'The real maps are exported from the XML in the working tree (lib/mapexport.py, no pyx12 import) into TLC constants. TLC explores DocGen (the language "walk the map in order '
          'within repeat limits", wrappers transparent) composed with the walker transcription MapWalk for each selected map - BFS over a coarse view with Cap=2 plus random deep walks with Cap=3 - '
          'and emits, for every abstract generator position, a complete conformant document (every usable segment node and node-to-node transition of the map is covered); each is concretised '
          'twice (needed elements only / every situational element filled) under rotating delimiter triples and line-break conventions, plus files holding documents of two different maps, and '
          'validated by the real x12n_document: verdict true, empty error tree, every AK5/IK5 and AK9 = A (T_Accept, TLC). Every walker call of those runs is trace-validated against the '
          'transcription (T_MapWalk: result node, pops, pushes, error codes in order, counter). Quick: 6 maps + every small map; thorough: every loadable indexed map. '
          'Map dispatch (spec/Driver.tla): TLC checks the ISA/GS/BHT dispatch loop against the definition of the map in force per segment over every envelope history <= 8/10 (+ random to 18/26) on the real '
          'index, every history is run through x12n_document (map of the node handed to the callback, check_837_lx flag, Map-not-found position) and judged by T_Driver.',
  'note': 'Three fill modes: needed elements only / every situational element / every situational element with every free value at its declared MAXIMUM length (every third document); a wrapper loop is entered through any of its child loops (DocGen EnterWrapper). "In order" = strict map order; repeat counts capped (2 / 3); values are proposed by the concretiser per element definition (first listed / first fitting external code, type- and '
          'length-shaped literals, qualifier-selected date formats) - a wrong proposal would show as a rejection to investigate, never hidden; maps with undefined data elements or an ISA '
          'version the reader refuses are left to C16; files mixing a 997/999 group with others are not claimed. Trusted: TLC, mapexport, concretiser, recorders in lib/walkcommon.py.',
  'technique': 'TLA+ model checking (TLC) of map-language generator x walker model + replay of TLC-generated documents into x12n_document + TLC trace validation of outcomes and walker calls',
 },
 'C03': {
  'text': 'Conformant documents of the real maps come from TLC DocGen (as C02). TLC Fault.tla enumerates over the full exported map every applicable single-fault plan (segment x element x '
          'component x kind; 17 kinds of the catalogue: too long/short, bad code, bad class, bad date/time, missing required, not-used present, too many (sub-)elements, broken syntax note (P R E C L), '
          'unknown / out-of-place / missing required / over-max segment, missing required / over-max loop) with its locality (a fault on a qualifier element, a missing required loop and any fault outside a set are structural; an unknown, out-of-place, missing or over-max segment and an over-max loop inside a set are local); one plan is applied per run '
          '(value built to break exactly one constraint, SE count kept consistent) and the faulted document validated by the real x12n_document; T_Fault (TLC) judges each record: verdict false, '
          'an error with a matching standard code at the injected segment and element position, and for local faults nothing else reported, the faulted set rejected and the other sets accepted.',
  'note': 'Plans run on random deep walks of the map (4 documents reach 58/58 segment nodes of the 835, 201/395 of the 837P); every broken-note plan also in the variant where the segment ends at the element the note hangs on; bad codes avoid the qualifiers of same-id segments; a fault outside any set has no faulty set. Quick: 4 documents per map on 6 maps, up to 45 sampled plans per kind and map (~3000 runs); thorough: 40 documents per map on every loadable map, all plans. An out-of-place segment is a copy of an earlier segment whose identifier cannot follow the insertion point when the map is read forward (Fault!ForwardIds: later children and loop entries of every enclosing loop); a missing segment or loop must be reported at the segment after the gap (a missing segment: no later than the first following segment beyond its ordinal). NotUsedSeg is not generated: no shipped map declares a not-used segment. '
          'HL/LX counters and qualifier-typed dates are excluded from length/class faults (they would break two constraints). '
          'Three recorded findings (mis-localised syntax / too-many errors). Trusted: TLC, plan application in lib/c03.py.',
  'technique': 'TLC enumeration of fault plans over the exported map + injection into TLC-generated documents + TLC trace validation of the recorded error trees and acknowledgements',
 },
 'C12': {
  'text': 'Model: TLC checks on Delims.tla that the tokenizer definition recovers every bounded abstract document from every encoding (all triples of distinct delimiters out of 4-5 candidate '
          'characters incl. LF, x none/LF/CRLF/CR: 182k states). Code: abstract documents - conformant ones from TLC DocGen for real maps (both fill modes), singly-faulted ones from the TLC fault '
          'plans of C03 (every kind), and buffer-sized 837 documents with the terminators shifted over 24/48 alignments - are rendered under 8/14 encodings (4 delimiter triples incl. newline-terminated '
          'and binary separators x line-break conventions) and validated by the real x12n_document; per document TLC (T_Delims) requires verdict, error set (level, code, segment position, element and '
          'component position, offending value) and acknowledgement body to equal those of the reference encoding.',
  'note': 'Encodings include control-character separators, the caret as component separator (5010 documents), full stop and hyphen (skipped for documents whose data holds them). Besides map-level single faults, RawPiece documents carry pieces the tokenizer must treat alike under every encoding (separators only, blanks only, an id followed by separators only, leading blank, trailing separators). Delimiters never occur in the data (excluded by the property); offending values and acknowledgement elements are compared after mapping delimiter characters to canonical ones; '
          'the binary triple uses ">" as component separator (a control character in ISA16 is itself rejected). Trusted: TLC, concretiser/renderer, recorders.',
  'technique': 'TLA+ model checking (TLC) of Oracle o Encode = id + metamorphic replay of TLC-generated documents under all encodings + TLC trace validation of the observations',
 },
 'C18': {
  'text': 'TLC enumerates Session.tla: every history of <=2 (thorough: kept histories of <=3 plus a spec-defined sample of 3-4) library calls over 9 documents (valid/invalid 837P 4010, many-AK3 837P, '
          'valid/invalid 834 5010, 835, 820, a 270 with two 2000A loops, two-interchange/eight-group file) x {validate with all sinks, context iteration, xml->x12 conversion} x reuse {none, params, maps}, plus for an 837 and an 835 the kinds {iteration by loop id observing the full iterate_loop_segments() event '
          'stream and every segment text, the same with copy() of every yielded node}; each history is executed '
          'in one fresh interpreter (hash seeds in rotation), Fresh(doc,kind) comes from one-call fresh interpreters under 6/12 hash seeds; verdict, error tree, XML, HTML, acknowledgement, node listing / '
          'converted text (masked only for ack date/time/control numbers and the HTML date line) and a fingerprint of watched globals are recorded as digests and trace-validated by TLC (T_Session): '
          'Obs = Fresh(doc,kind) for every call, globals unchanged, and all fresh processes of one (doc,kind) agree whatever their hash seed.',
  'note': 'A call exceeding 45 s CPU / 3 GB is reported as no_termination and ends its process. Bounded corpus and history length; stages stop at a deadline and the evidence records exhaustive=false if the exhaustive part was cut short; TLC contributes enumeration and the equality verdicts, '
          'the leak itself is only visible by running the code; SHA-1 digests stand for texts; reuse=maps goes through a wrapper of map_if.load_map_file. Trusted: TLC, masking/projection in lib/c18_worker.py. The corpus holds one document (e834v5local) that is processed with an explicit map directory (map_path) whose 834 5010 guide differs from the packaged one: the map directory is a parameter like any other. Two 837I documents whose HI composites carry date format qualifiers (i837occ, i837span) cover state that composites could carry from one document to the next.',
  'technique': 'TLA+ model checking (TLC) + replay of TLC-enumerated call histories in fresh interpreters + TLC trace validation of the recorded observations',
 },
 'C08': {
  'text': 'Model: TLC checks on XmlGen that the coded pop/push step of x12xml_simple.seg (list-wise match index, character-wise common prefix, match_idx -= 1, repeat case) equals the definition '
          'step DefStep for every transition between loop paths of a 3-id x depth-3 tree, that the open elements always spell the loop path, and Unescape(Escape(s)) = s with no markup left for all '
          'strings <= 4/5 over {a & < > \' ; l t ] "} (content and attribute escaping); a second run with character-prefix sibling ids reports the latent differences as information. Code: conformant '
          'documents from TLC DocGen (coverage set, documents with one loop id at two paths, random deep walks) with & < > \' " and blanks in free-text values under 3 delimiter triples are converted '
          'by x12n_document(fd_xmldoc) and back by xmlx12_simple.convert; T_Xml (TLC) validates well-formedness, the loop/segment event sequence against DefStep over the map path of the node each '
          'segment matched, that the ele/subele labels are reference designators rebuilding the source segment (not-used elements and ISA separator fields excepted), and the round trip.',
  'note': 'Every string TLC enumerates over the markup alphabet (<= 4/5 characters, entity-shaped text included) is written by the real XMLWriter as content and attribute and read back with a standard XML parser (escape_* clauses; drift against the model Escape). Placement oracle = the node pyx12 matched (callback), itself bound to the walker transcription in C02; sibling nodes reporting one path are told apart by their qualifier codes; the base-class '
          'seg_context output and DTD validity are not covered. No shipped map has character-prefix sibling loop ids (scanned), so the latent step difference cannot manifest there.',
  'technique': 'TLA+ model checking (TLC) of the XML path state machine and escaping + replay of TLC-generated documents through both converters + TLC trace validation',
 },
 'C15': {
  'text': 'TLC enumerates ElemValidGen (723 element definition classes: usage x 17 type/length shapes x code list none/inline/external/both x pattern none/matching/not x version; value catalogue at '
          'every boundary: lengths min-1..max+1, sign/point forms, control characters, blanks, character-set edges, list members/non-members, invalid date/time/number forms; charset B/E, exclusion '
          'on/off, qualifier type lists; 27 two-component composites x 40 value lists), checks that the transcription of element_if/composite_if.is_valid (ElemValidImpl) is admissible for the definition '
          'ElemValid.tla and exact on single violations, and emits 77k cases with their admissible reports; every case is replayed on real nodes of a generated map loaded by load_map_file. For every '
          'element and composite node of every loadable shipped map x the value catalogue of its definition x charset B/E x three exclusion settings (and DTP03/1251 elements through segment_if.is_valid '
          'with every allowed qualifier), is_valid is called with errh_list; the log (definition read by an independent XML reading, value code points, result, codes) is de-duplicated and trace-validated '
          'by TLC (T_ElemValid) - all 1856+115 signatures in the thorough tier, a stratified 15% in quick.',
  'note': 'Composites are also judged component by component (component_missed: unless the composite itself is at fault, every component with a broken constraint has one of its codes reported at that component). The reported codes must be EXACTLY the implied ones (ElemValid!Complete, also a model-level law ImplComplete of the transcription), except what the two documented precedences mask: a composite value put where a simple element is defined is not looked at further, and a value holding one of the 23 X12 control characters must show code 6 and its length errors and may keep silent about the checks after it; for composites 2|1 and 5|10 are admitted; regex = Python re; external '
          'membership = own reading of codes.xml; not covered: 841.4010.XXXC (does not load), nodes with undefined data elements. Trusted: TLC, lib/c15_*.py projections.',
  'technique': 'TLA+ model checking (TLC) of Impl-admissible-for-Def + replay of TLC cases on real map nodes + TLC trace validation of the complete recorded table',
 },
 'C09': {
  'text': 'Context.tla defines, from the located source segments (loop path of the node each matched, first-segment flag), the yield sequence for a requested loop id (Groups: plain segments outside, '
          'one tree per instance of the loop cut at each of its first segments, last tree at end of input) and the address of every segment inside its tree (chain of <<child loop id, instance>>, a fresh '
          'instance at every first segment). Conformant documents from TLC DocGen (covering set + longest random deep walks: loops repeating back-to-back, ending their parent or the file, nested in '
          'repeating parents) of 6 maps (thorough: all) are iterated with the real X12ContextReader for no loop id and every segment-anchored loop id they contain, envelope loops included; T_Context (TLC) '
          'validates per run: no segment lost / duplicated / reordered, content, position in set and source line, grouping, tree root, tree shape. '
          'Model level (ContextGen.tla): for every located-segment sequence <=7/8 a walk of a small loop tree can produce, with the walker\'s pop/push lists, TLC checks that the reader loop as coded '
          '(ImplGroups) yields exactly Groups, that the _add_segment transcription (ImplAddresses) places every segment at its Address, and that Groups partitions the source. '
          'Map dispatch (spec/Driver.tla, as in C02) is replayed through iter_segments: map of every yielded node, check_837_lx flag, Map-not-found position (T_Driver).',
  'note': 'The position of a segment in its set is counted from the document itself (not taken from the reader the context reader uses); one document per child loop through which a wrapper loop is entered; a conformant document whose segments cannot be located is a violation (conformant_segment_not_located). Placement oracle = the node pyx12 matched in an independent validation run (bound to the walker transcription by C02); map objects are memoised inside the harness process. One recorded '
          'finding (ISA_LOOP trees lack the GS_LOOP level). Trusted: TLC, the tree flattener in lib/c09.py.',
  'technique': 'TLA+ definition of the partition + replay of TLC-generated documents through X12ContextReader for every loop id + TLC trace validation',
 },
 'C16': {
  'text': 'Every map file maps.xml names is exported independently of pyx12 (lib/c16_export.py) and judged by TLC (MapDef/MapWF): well-formedness of usages, limits, positions, sequence numbers and '
          'syntax notes, defined data elements and code sets, distinguishability of same-position siblings, unambiguous index keys, and re-addressability of every node by a path resolved one component '
          'per step. Every tree the real loader builds is compared node for node with the XML for both load routes (packaged resources and an explicit map directory with marker entries); each node\'s own '
          'get_path() is fed to getnodebypath and getnodebypath2, and map_index.get_filename is asked every key and near-miss key; all recorded facts are trace-validated by TLC (T_MapModel).',
  'note': 'Exhaustive over the shipped configuration (26 indexed files, 24k nodes, 3.3k index queries); thorough adds the five shipped maps the index does not name. Composite nodes are outside the '
          'property; children order is demanded by position only; the ISA versions the reader accepts are not part of the property. 15 recorded findings (map data defects and the CTX/PWK path '
          'conflations), 3 code defects repaired.',
  'technique': 'Explicit TLA+ spec (MapDef, MapWF) evaluated by TLC over independently exported constants + TLC trace validation (T_MapModel) of the real loader, lookups and index',
 },
 'C19': {
  'text': 'Html.tla: definition layer (report as items seg/err/info, per-character Escape/Unescape, StripMarkup, completeness / adjacency / escaping predicates) and an implementation-shaped '
          'transcription of err_handler, the err_iter cursor as x12n_document drives it, gen_seg and footer; TLC (HtmlGen) explores all tree-growth sequences within bounds (several sets, groups, '
          'interchanges, 0..2 errors before/after a segment, errors on trailers, unclosed and mis-nested loops) and emits behaviours; they are realised as real documents under three delimiter triples '
          'with values carrying < > & " \' and blanks, and - with fixtures, seeded fixture mutations, concatenated interchanges and markup-character delimiters - run through the real x12n_document; '
          'the recorded error-handler calls, source segments and the HTML parsed back with html.parser are trace-validated by TLC (T_Html): every segment once, in order, with line number and values, '
          'every claimed segment-/element-level error adjacent to its segment, no unescaped input, complete document, StripMarkup = source.',
  'note': 'Errors reported while a body segment of a transaction set the handler has open is processed are claimed wherever the handler keeps them; reader-level errors are also put on the first and the last body segment of a set; the listed segment text is compared with the segment AS WRITTEN in the source (raw pieces cut at the terminator independently of the reader; empty trailing elements and components included) wherever the pieces line up one to one with the segments the reader yields; element errors are put on SE / GE / IEA with values that spell a segment identifier (this corpus found the GE hack repaired by /repo 1bcd704). Claimed errors = seg_error/ele_error calls made while a segment is validated and stored in the tree; isa/gs/st-level errors and errors the handler dropped are recorded, not claimed. '
          'Six recorded findings (cursor stuck after the first interchange / in an unclosed loop / on a closed set / on envelope lines, stale element node for too-many-elements). Trusted: TLC, lib/c19_run.py.',
  'technique': 'TLA+ model checking (TLC) of the error-tree cursor and report model + realisation of emitted behaviours as documents + TLC trace validation of recorded runs (drift reported separately)',
 },
 'C10': {
  'text': 'TLC explores TreeEdit.tla (forest with explicit parent links over a map fragment exported from the real map; one action per API call; invariants well-formed / map-ordered / agreement of '
          'exists-count-first-select; action properties set-then-get and nothing else, delete exactly one, insertion order, copy-fresh, serialisation reflects the edit): all histories of <=2 (thorough: 3 on '
          'the 834 tree) mutating calls from small real 837P/835/834 trees and random 12/24-call histories on the suite documents; every emitted history is replayed on a tree from X12ContextReader comparing '
          'return value / exception class, projected tree (identity, parent, children, values) and iterate_segments() after each call; all read-only calls are observed on every distinct forest reached, and '
          'seeded random 30/40-call histories plus the README / test-suite usage are recorded and validated event by event by T_TreeEdit (TreeDef: per call the set of acceptable results).',
  'note': 'Real code runs under a per-history CPU budget (5/15 s), a per-task CPU budget (90/600 s) and a 1.5 GB address-space allowance; exceeding them is a no_termination violation (evidence key termination_guard). Alphabets of 15-25 curated paths on the small trees, <=120 sampled paths on the big ones; invalid paths, "../" from segment nodes and calls on deleted nodes only constrain "nothing changes" and the '
          'agreement of the four query methods; where "first loop instance only" and "first match overall" differ, get_value/set_value may follow either. Trusted: TLC, PathDef (C17), lib/c10_world.py. '
          'Four defects found and repaired. delete_segment is also called with data that is nearly a child\'s (one element more / fewer): only exact data deletes.',
  'technique': 'TLA+ model checking (TLC BFS + simulation) + replay of TLC histories on real trees + TLC trace validation of recorded executions',
 },
}
