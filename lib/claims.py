"""What MANIFEST.json claims per property (bin/mkmanifest turns this into MANIFEST.json)."""
HOOK_COMMITS = []
NOTES = ('Every check: TLC explores the TLA+ model (spec/), behaviours it emits are replayed into the real code, and recorded '
         'executions of the real code are trace-validated by TLC. A VIOLATION is only printed for a concrete execution of the real '
         'code that the specification rejects; model-only failures exit 2 (machinery). known_findings.json lists recorded defects.')
NOT_CLAIMED = {}
CLAIMS = {
 'C17': {
  'text': 'TLC enumerates every path record of the bounded grammar (PathGen: <=2/3 loop ids over 9 ids x 4 segment ids x 3 qualifiers x 5 element x 4 component indexes) '
          'and every history of <=2/3 set() calls (SegOps) with the read-back/others-unchanged/exact-growth laws as action properties; every emitted behaviour is replayed '
          'into X12Path/Segment and compared field by field; node paths of the shipped maps and seeded random set/get histories are recorded from the real classes and '
          'trace-validated by TLC against the Parse/Print/Set/Get definitions (T_PathSeg).',
  'note': 'Bounded: loop-id alphabet of 9 representative ids, histories of <=3 calls exhaustively plus random histories of <=10 calls; trusted: TLC, the projection functions in lib/c17.py.',
  'technique': 'TLA+ model checking (TLC) + replay of TLC behaviours into the code + TLC trace validation of recorded executions',
 },
 'C04': {
  'text': 'TLC model-checks the implementation-shaped reader model (spec/Envelope.tla: _parse_segment of X12Base and X12Reader, cleanup) against the '
          'independent recount definition (spec/Recount.tla: nesting, control-number scope, counts, HL path, LX numbering) as invariants over all segment '
          'histories within bounds (full histories <=4/5, de-duplicated state graph to depth 6-15, focused HL/LX alphabets, random walks to depth 24/40); '
          'every emitted history is concretised under 4 delimiter/line-break settings and read by the real X12Reader, and every execution (plus the repository '
          'fixtures and concatenations of them) is trace-validated by TLC (T_Envelope): the Recount definition decides violations per segment and at cleanup, '
          'the Envelope transcription is compared state-by-state (counters, loop stack, error list) and reports drift.',
  'note': 'Control numbers range over 2-3 values (only equality matters); a blank HL02 makes no claim; LX numbering is claimed only after a CLM of the same set '
          'with the caller-enabled 837 check; error classes are compared as (level, code) sets. Trusted: TLC, concretiser/projection in lib/c04.py.',
  'technique': 'TLA+ refinement check (TLC) of reader model vs recount definition + replay of TLC histories into X12Reader + TLC trace validation of recorded executions',
 },
 'C14': {
  'text': 'TLC enumerates SyntaxGen: all 5 note types x every ordered list of 2..4 distinct positions out of 1..5/1..6 x every segment of length 0..5/6 with every '
          'presence pattern (63k/324k cases), checking that the transcribed counting loops (SyntaxImpl) equal the X12 definition (Syntax.tla) and the relations '
          'between the five conditions; every case is replayed into a real segment_if and Segment (is_syntax_valid verdict, element error code 10 for E else 2 at a '
          'mentioned position, none when satisfied). For every syntax note of every segment of every loadable shipped map x every presence pattern x every segment '
          'length, is_syntax_valid and segment_if.is_valid(errh_list) are run and the log is trace-validated by TLC (T_Syntax); complete table in the thorough tier.',
  'note': 'Errors of other validations are separated by differencing against the same is_valid call with the notes switched off; error position only required to be '
          'one of the note positions; quick tier: 5-element generator space, distinct (note, element-count) signatures over all maps plus per-occurrence is_valid on 5 maps. '
          'Not covered: the unloadable 841 map, cases where is_valid raises regardless of notes. Trusted: TLC, projections in lib/c14.py.',
  'technique': 'TLA+ model checking (TLC) Impl=Def + replay of TLC cases into the code + TLC trace validation of the complete recorded table',
 },
 'C11': {
  'text': 'TLC checks on WriterGen, for every well-nested write history <=6/7 (trailers supplied with right/wrong/absent counts and ids, or omitted) and every prefix as a Close '
          'point, that the implementation-shaped writer model (X12Writer.Write/_popToLoop/_close_* over X12Base counters) equals the definition WriterDef (non-trailers in order, '
          'generated trailers with header control number and recount), that the reader model accepts the result and the recount is clean; every history is written through the '
          'real X12Writer under 5 delimiter/eol settings and both ISA versions; per-Write appended segments, the closed stream, its re-read by the real X12Reader and the ISA '
          'delimiters are trace-validated by TLC (T_Writer), as are seeded random histories up to 18/40 writes and the repository fixtures piped reader->writer.',
  'note': 'Duplicate control numbers supplied by the caller are copied (reader errors 025/6/23 not attributed to the writer); LX renumbering option off; trusted: TLC, output splitter/projection in lib/c11.py.',
  'technique': 'TLA+ refinement check (TLC) writer model vs definition + replay of TLC histories into X12Writer + TLC trace validation',
 },
}
