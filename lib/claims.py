"""What MANIFEST.json claims per property (bin/mkmanifest turns this into MANIFEST.json)."""
HOOK_COMMITS = []
NOTES = ('Every check: TLC explores the TLA+ model (spec/), behaviours it emits are replayed into the real code, and recorded '
         'executions of the real code are trace-validated by TLC. A VIOLATION is only printed for a concrete execution of the real '
         'code that the specification rejects; model-only failures exit 2 (machinery). known_findings.json lists recorded defects.')
NOT_CLAIMED = {}
CLAIMS = {
 'C17': {
  'text': 'TLC enumerates every path record of the bounded grammar (PathGen: <=2/3 loop ids over 9 ids x 4 segment ids x 3 qualifiers x 5 element x 4 component indexes) '
          'and every history of <=2/3 set() calls (SegOps) with the read-back/others-unchanged/exact-growth laws as action properties; every emitted behaviour is replayed '
          'into X12Path/Segment and compared field by field; node paths of the shipped maps and seeded random set/get histories are recorded from the real classes and '
          'trace-validated by TLC against the Parse/Print/Set/Get definitions (T_PathSeg).',
  'note': 'Bounded: loop-id alphabet of 9 representative ids, histories of <=3 calls exhaustively plus random histories of <=10 calls; trusted: TLC, the projection functions in lib/c17.py.',
  'technique': 'TLA+ model checking (TLC) + replay of TLC behaviours into the code + TLC trace validation of recorded executions',
 },
}
