"""C02 - every map-conformant document is accepted with zero errors.

spec -> code : TLC DocGen (the language of an exported real map, composed with the walker transcription) emits one
               complete conformant document per abstract position of the map (every segment node, every node->node
               transition within Cap=2 repeats) plus random deep walks; each is concretised twice (needed elements
               only / every situational element filled) under rotating delimiter triples and line-break conventions
               and validated by the real pyx12.x12n_document with the acknowledgement sink on.
code -> spec : the outcome records are validated by TLC (T_Accept); every walker call made during those runs is
               validated against the walker transcription (T_MapWalk) - mismatches there are specification drift
               unless an acceptance clause fails too.
"""
import json
import os
import random
import shutil
import sys

sys.path.insert(0, os.path.dirname(os.path.abspath(__file__)))
import vlib
from vlib import Check
import walkcommon as wc


def _run_batch(args):
    fn, full, docs, base, want_walk = args
    out = []
    for j, doc in enumerate(docs):
        for mode in (True, False, 'max') if j % 3 == 0 else (True, False):
            # 'max': every situational element filled and every free value at its declared maximum length
            tid = (base + j) * 3 + (2 if mode == 'max' else 1 if mode else 0)
            triple = wc.TRIPLES[tid % 3]
            eol = wc.EOLS[(tid // 3) % 4]
            c = wc.Concretiser(full, triple, eol, fill_optional=bool(mode), maxlen=(mode == 'max'))
            fa = bool(c.entry and c.entry['fic'] == 'FA')      # acknowledgements are not acknowledged
            text, info = c.build(doc)
            r = wc.run_validator(text, want_ack=True, want_html=(tid % 5 == 0), want_xml=(tid % 7 == 0), record_walk=want_walk)
            sets, groups = wc.ack_codes(r['ack'])
            rec = {'id': tid, 'map': fn, 'nodes': doc, 'matched': [x['path'] for x in r['nodes']], 'verdict': r['verdict'] if r['verdict'] is not None else False,
                   'nerr': len(r['errors']), 'sets': sets, 'groups': groups, 'nsets': 0 if fa else sum(1 for x in info if x[1] == 'ST'),
                   'ngroups': 0 if fa else sum(1 for x in info if x[1] == 'GS'), 'exc': r['exc'], 'mode': 'max' if mode == 'max' else 'all' if mode else 'needed', 'triple': ''.join(triple), 'eol': eol,
                   'errors': r['errors'][:6], 'site': r.get('site', '')}
            walk = []
            for k, e in enumerate(r['walk']):
                e['tid'] = tid
                e['k'] = k
                walk.append(e)
            out.append((rec, walk, text))
    return out


def _run_mixed(args):
    """several conformant documents of different maps in one file (successive interchanges)"""
    tid, parts = args
    triple = wc.TRIPLES[tid % 3]
    eol = wc.EOLS[tid % 4]
    text = ''
    nsets = ngroups = 0
    start = 0
    part_ranges = []          # (map, first segment, last segment) of each document in the file; the reader's line counter counts segments
    nseg_total = 0
    for fn, full, doc, mode in parts:
        c = wc.Concretiser(full, triple, eol, fill_optional=mode)
        c.isa_start = start
        t, info = c.build(doc)
        start = c.isa_n
        part_ranges.append((fn, nseg_total + 1, nseg_total + len(info)))
        nseg_total += len(info)
        text += t
        if not (c.entry and c.entry['fic'] == 'FA'):
            nsets += sum(1 for x in info if x[1] == 'ST')
            ngroups += sum(1 for x in info if x[1] == 'GS')
    r = wc.run_validator(text, want_ack=True)
    sets, groups = wc.ack_codes(r['ack'])
    rec = {'id': tid, 'map': '+'.join(p[0] for p in parts), 'nodes': [], 'matched': [x['path'] for x in r['nodes']], 'verdict': r['verdict'] if r['verdict'] is not None else False,
           'nerr': len(r['errors']), 'sets': sets, 'groups': groups, 'nsets': nsets, 'ngroups': ngroups, 'exc': r['exc'], 'mode': 'mixed', 'triple': ''.join(triple), 'eol': eol,
           'errors': r['errors'][:6], 'site': r.get('site', ''), 'parts': part_ranges}
    return rec, text


def _validate_batch(args):
    skel, recs = args
    d = vlib.scratch('c02tv')
    try:
        p = os.path.join(d, 'recs.json')
        keys = ('id', 'nodes', 'matched', 'verdict', 'nerr', 'sets', 'groups', 'nsets', 'ngroups', 'exc')
        vlib.write_json(p, [{k: r[k] for k in keys} for r in recs])
        res = vlib.run_tlc('T_Accept', 'SPECIFICATION Spec\nINVARIANT Report\n', env={'MAP_FILE': skel, 'TRACE_FILE': p}, workers=1, timeout=1500, heap='3g')
        if res.error:
            raise vlib.MachineryError('T_Accept: ' + res.error)
        rep = res.payloads.get('REJECTS')
        if not rep:
            raise vlib.MachineryError('T_Accept printed no report\n' + res.out[-1500:])
        return {'distinct': res.distinct, 'generated': res.generated, 'depth': res.depth, 'wall': res.wall, 'rej': rep[-1]['rej']}
    finally:
        shutil.rmtree(d, ignore_errors=True)


def err_sig(e):
    return {k: e.get(k) for k in ('lvl', 'code', 'seg') if k in e}


def run(tier, replay=None):
    if replay:
        obj = json.load(open(replay))['replay']
        if obj.get('part') == 'map_dispatch':
            import driver
            return driver.replay(obj)
        r = wc.run_validator(obj['text'])
        print('map      :', obj.get('map'), 'mode', obj.get('mode'))
        print('verdict  :', r['verdict'], 'exc', r['exc'])
        for e in r['errors'][:10]:
            print('error    :', e)
        print('ack codes:', wc.ack_codes(r['ack']))
        return 0
    chk = Check('C02', tier)
    chk.rule = ('one case per (conformant document emitted by DocGen for a map, fill mode); documents are distinct complete walks of the map '
                '(one per abstract generator position + random deep walks); non-trivial = has at least one transaction set')
    q = tier == 'quick'
    if not q:
        wc.MEMO_MAPS = True       # thorough tier: each worker process loads every map once (reuse of map objects is C18's subject)
    rnd = random.Random(vlib.seed() + 2)
    files = wc.choose_maps(tier, rnd, wide=True)
    gens = wc.gen_docs_many(files, cap=2, maxdepth=60 if q else 80, timeout=2400)
    sims = wc.gen_docs_many(files, cap=3, maxdepth=150, mode='sim', num=40 if q else 150, seed=vlib.seed(), timeout=2400)
    model_viol = {}
    jobs = []
    base = 0
    docs_of = {}
    for fn in files:
        g = gens[fn]
        s = sims[fn]
        res = vlib.TlcResult(); res.distinct = g['distinct'] + s['distinct']; res.generated = g['generated'] + s['generated']; res.depth = max(g['depth'], s['depth']); res.wall = g['wall'] + s['wall']
        chk.add_tlc(res, 'DocGen ' + fn)
        docs = g['docs'] + [d for d in s['docs'] if d not in g['docs']]
        big = len(wc.export_map(fn)[1]['nodes']) > 120
        if q and len(docs) > (160 if big else 70):
            docs = rnd.sample(g['docs'], min(len(g['docs']), 130 if big else 50)) + s['docs'][:(30 if big else 20)]
        elif not q and len(docs) > 500:
            # thorough: bounded so that the tier finishes in about an hour on 16 cores (every generator position of the smaller maps, a seeded sample of the larger)
            docs = rnd.sample(g['docs'], min(len(g['docs']), 380)) + s['docs'][:120]
        if g['viol'] or s['viol']:
            model_viol[fn] = (g['viol'] + s['viol'])[:5]
        _, full = wc.export_map(fn)
        # envelope multiplicity: the same walk with its transaction set / group / interchange taken twice (the envelope loops
        # repeat >1 in every map, so these are conformant documents; the coarse generator view rarely reaches them)
        ids = {n['n']: n['id'] for n in full['nodes']}
        multi = []
        for base_doc in docs[:3 if q else 12]:
            sid = [ids[x] for x in base_doc]
            for a, b in (('ST', 'SE'), ('GS', 'GE'), ('ISA', 'IEA')):
                if a in sid and b in sid:
                    i, j = sid.index(a), sid.index(b)
                    multi.append(base_doc[:j + 1] + base_doc[i:j + 1] + base_doc[j + 1:])
        docs = docs + [m for m in multi if m not in docs]
        docs_of[fn] = docs
        for b in vlib.chunked(docs, 12):
            jobs.append((fn, full, b, base, True))
            base += len(b)
    results = vlib.parallel_map(_run_batch, jobs)
    recs_by_map = {}
    walks_by_map = {}
    texts = {}
    for (fn, full, b, bs, _), rs in zip(jobs, results):
        for rec, walk, text in rs:
            recs_by_map.setdefault(fn, []).append(rec)
            for e in walk:
                walks_by_map.setdefault(e['map'] or fn, []).append({k: v for k, v in e.items() if k != 'map'})
            if text is not None:
                texts[rec['id']] = text
    # several maps in one file: every ordered pair of the chosen maps that share an interchange version
    mjobs = []
    mt = 10000000
    ver = {}
    for fn in files:
        ent = [e for e in wc.mapexport.index_entries() if e['file'] == fn and e['icvn'] in ('00401', '00501')]
        ver[fn] = ent[0]['icvn'] if ent else ''
    fa_maps = set(e['file'] for e in wc.mapexport.index_entries() if e['fic'] == 'FA')     # whether a file holding a 997/999 group is acknowledged is not claimed
    pairs = [(a, b) for a in files for b in files if a != b and ver[a] == ver[b] and ver[a] and a not in fa_maps and b not in fa_maps]
    npairs = 10 if q else 160
    if len(pairs) > npairs:
        must = [p for p in pairs if p[0].startswith('837') and not p[1].startswith('837')][:3 if q else 24]
        pairs = must + rnd.sample([p for p in pairs if p not in must], npairs - len(must))
    for a, b in pairs:
        _, fa_ = wc.export_map(a)
        _, fb_ = wc.export_map(b)
        cands = [(docs_of[a][(i * 7) % len(docs_of[a])], docs_of[b][(i * 11 + 3) % len(docs_of[b])]) for i in range(2 if q else 4)]
        def rich(fn, full):          # the document with the most service lines / hierarchical levels, then the longest
            ids = {n['n']: n['id'] for n in full['nodes']}
            return max(docs_of[fn], key=lambda d: (sum(1 for x in d if ids[x] == 'LX'), sum(1 for x in d if ids[x] == 'HL'), len(d)))
        cands.append((rich(a, fa_), rich(b, fb_)))
        for da, db in cands:
            mt += 1
            mjobs.append((mt, [(a, fa_, da, True), (b, fb_, db, True)]))
    mixed = vlib.parallel_map(_run_mixed, mjobs)
    if mixed:
        first_map = files[0]
        for rec, text in mixed:
            recs_by_map.setdefault(first_map, []).append(rec)
            texts[rec['id']] = text
    # outcome validation by TLC
    vjobs = []
    for fn, recs in recs_by_map.items():
        skel, _ = wc.export_map(fn)
        for b in vlib.chunked(recs, 2000):
            vjobs.append((skel, b))
    vres = vlib.parallel_map(_validate_batch, vjobs)
    tot = vlib.TlcResult()
    byid = {r['id']: r for recs in recs_by_map.values() for r in recs}
    for r in vres:
        tot.distinct += r['distinct']; tot.generated += r['generated']; tot.wall = max(tot.wall, r['wall']); tot.depth = max(tot.depth, r['depth'])
        for tid, clause in r['rej']:
            rec = byid[tid]
            if clause == 'harness_not_a_walk':
                raise vlib.MachineryError('generated document %s of %s is not a walk of the map' % (tid, rec['map']))
            first = rec['errors'][0] if rec['errors'] else {}
            sig = {'clause': clause, 'map': rec['map']}
            if rec.get('mode') == 'mixed' and rec.get('parts'):
                # a file of several documents: the finding belongs to the map of the document the first error lies in
                ln = ([e.get('line', -1) for e in rec['errors'] if e.get('line', -1) > 0] or [-1])[0]
                for (pm, lo, hi) in rec['parts']:
                    if lo <= ln <= hi:
                        sig['map'] = pm
            if clause == 'exception':
                sig.update({'exc': rec['exc'], 'site': rec['site']})
            elif first:
                sig.update({'err': err_sig(first), 'msg': (first.get('msg') or '')[:60]})
            chk.violation(sig, '%s conformant document (%s elements, delimiters %r, eol %r) rejected: clause %s verdict=%s exc=%s errors=%s ack sets=%s groups=%s'
                          % (rec['map'], rec['mode'], rec['triple'], rec['eol'], clause, rec['verdict'], rec['exc'], rec['errors'][:3], rec['sets'], rec['groups']),
                          {'kind': 'doc', 'map': rec['map'], 'mode': rec['mode'], 'nodes': rec['nodes'], 'text': texts.get(tid, ''), 'clause': clause})
    chk.add_tlc(tot, 'T_Accept')
    nrec = sum(len(v) for v in recs_by_map.values())
    chk.add_traces(nrec)
    chk.add_eval(nrec)
    for fn, recs in recs_by_map.items():
        for r in recs:
            chk.note_distinct('%s|%s|%s' % (fn, r['mode'], hash(tuple(r['nodes']))))
        r = recs[len(recs) // 2]
        chk.sample({'map': fn, 'mode': r['mode'], 'segments': len(r['nodes']), 'matched_paths_tail': r['matched'][-4:], 'verdict': r['verdict'], 'ack_sets': r['sets']}, cap=8)
    # placement ambiguity (information only): generator intent vs node matched by pyx12
    amb = 0
    for fn, recs in recs_by_map.items():
        _, full = wc.export_map(fn)
        paths = {n['n']: n['path'] for n in full['nodes']}
        for r in recs:
            if r['exc'] == '' and [paths[x] for x in r['nodes']] != r['matched']:
                amb += 1
    chk.extra['documents_matched_to_other_nodes_than_generated_without_error'] = amb
    # walker transcription vs recorded walker calls (drift unless an acceptance clause failed)
    rej = wc.validate_walks(chk, walks_by_map, 'conformant documents')
    chk.extra['walker_events_validated'] = sum(len(v) for v in walks_by_map.values())
    if rej:
        chk.extra['spec_drift_walker'] = [list(x) for x in rej[:10]]
    chk.extra['model_level_disagreements'] = {k: v[:2] for k, v in model_viol.items()}
    chk.extra['maps'] = files
    chk.assumptions = ['"in order" = strict map order (position, ties by XML document order); wrapper loops transparent (DESIGN.md C02)',
                       'values are proposed by the concretiser per element definition (first listed code, first fitting external code, type/length shaped literals); repeat counts capped at 2 (3 in random walks)',
                       'maps whose data elements are undefined or whose ISA version the reader refuses are skipped here (C16)']
    # which map is in force for each segment (spec/Driver.tla): the dispatch on ISA / GS / BHT that this property silently relies on
    import driver
    driver.run_part(chk, tier, 'x12n')
    return chk.finish()


if __name__ == '__main__':
    vlib.main_wrapper(run)
